package main

// Replay of counterexamples about asm.Emitter: the model's emitter (scalar fields, buffer bytes, listing records)
// is rebuilt natively inside package asm (test injected with `go test -overlay`), the real method is called, the
// observed post-state is dumped as JSON and the violated clause is re-evaluated on (model pre-state, observed
// post-state). Covered: methods of *asm.Emitter with scalar / string / []byte parameters, and lemma wrappers in
// verif/lemmas whose body is one such call with the lemma's parameters forwarded. Maps are rebuilt empty (string
// keys have no model value); clauses that do not fold to a constant on the concrete states stay unconfirmed.

import (
	"encoding/json"
	"fmt"
	"go/types"
	"sort"
	"strconv"
	"strings"
	"time"

	"golang.org/x/tools/go/ssa"
)

const asmPath = repoPath + "/asm"

type emitReplayCase struct {
	r      *ObResult
	fc     *FnContract   // contract the obligation belongs to (method or lemma)
	fn     *ssa.Function // function under that contract
	method *ssa.Function // the Emitter method actually called
}

func isEmitterPtr(t types.Type) bool {
	p, ok := t.(*types.Pointer)
	if !ok {
		return false
	}
	n, ok := p.Elem().(*types.Named)
	return ok && n.Obj().Name() == "Emitter" && n.Obj().Pkg() != nil && n.Obj().Pkg().Path() == asmPath
}

// emitterCallOf: the single Emitter-method call a lemma wrapper forwards its parameters to
func emitterCallOf(fn *ssa.Function) *ssa.Function {
	if fn.Signature.Recv() != nil && isEmitterPtr(fn.Signature.Recv().Type()) {
		return fn
	}
	if len(fn.Params) == 0 || !isEmitterPtr(fn.Params[0].Type()) {
		return nil
	}
	var found *ssa.Function
	n := 0
	for _, b := range fn.Blocks {
		for _, in := range b.Instrs {
			c, ok := in.(*ssa.Call)
			if !ok {
				continue
			}
			callee := c.Call.StaticCallee()
			if callee == nil || callee.Signature.Recv() == nil || !isEmitterPtr(callee.Signature.Recv().Type()) {
				return nil
			}
			if len(c.Call.Args) != len(fn.Params) {
				return nil
			}
			for i, a := range c.Call.Args {
				if a != ssa.Value(fn.Params[i]) {
					return nil
				}
			}
			found = callee
			n++
		}
	}
	if n != 1 {
		return nil
	}
	return found
}

func emitParamOK(t types.Type) bool {
	if isScalarType(t) || isString(t) {
		return true
	}
	if sl, ok := t.Underlying().(*types.Slice); ok {
		w, _, ok2 := bitsOf(sl.Elem())
		return ok2 && w == 8
	}
	return false
}

// shrinkModel asks for a second model with small lengths (a model with a 2 GiB buffer cannot be replayed)
func shrinkModel(r *ObResult) {
	if r.ob == nil || len(r.vars) == 0 {
		return
	}
	var bounds []*Term
	for _, v := range r.vars {
		if v.Op != "var" || v.S.Kind != 1 || v.S.W != 64 {
			continue
		}
		base := v.Name
		if i := strings.LastIndexByte(base, '!'); i > 0 {
			base = base[:i]
		}
		if strings.HasSuffix(base, "_len") || strings.HasSuffix(base, "_cap") || base == "a.n" {
			bounds = append(bounds, cmp("bvult", v, Const(64, 1<<12)))
		}
	}
	if len(bounds) == 0 {
		return
	}
	q := SMTQuery(append([]*Term{r.ob.PC, Not(r.ob.Cond)}, bounds...), modelTerms(r.vars))
	res := runSolver("z3-new", q, 5*time.Second)
	if res.Result == "sat" && len(res.Values) > 0 {
		r.Model = buildModel(r.vars, res.Values)
	}
}

func modelArray(model map[string]uint64, name string) map[uint64]uint64 {
	out := map[uint64]uint64{}
	pref := sanitize(name) + "!"
	for k, v := range model {
		if !strings.HasPrefix(k, pref) {
			continue
		}
		i := strings.IndexByte(k, '[')
		if i < 0 {
			continue
		}
		if _, err := strconv.Atoi(k[len(pref):i]); err != nil {
			continue
		}
		idx, err := strconv.ParseUint(strings.TrimSuffix(k[i+1:], "]"), 0, 64)
		if err == nil {
			out[idx] = v
		}
	}
	return out
}

func sortedKeys(m map[uint64]uint64) []uint64 {
	var ks []uint64
	for k := range m {
		ks = append(ks, k)
	}
	sort.Slice(ks, func(i, j int) bool { return ks[i] < ks[j] })
	return ks
}

const emitMaxLen = 1 << 20

func replayEmitter(w *World, todo []*ObResult, out map[string]repResult) {
	var cases []emitReplayCase
	for _, r := range todo {
		if r.ob == nil {
			continue
		}
		fc, fn := w.contractByFnName(r.ob.Fn)
		if fn == nil {
			continue
		}
		m := emitterCallOf(fn)
		if m == nil {
			continue
		}
		ok := true
		for _, p := range m.Params[1:] {
			if !emitParamOK(p.Type()) {
				ok = false
			}
		}
		if !ok {
			continue
		}
		cases = append(cases, emitReplayCase{r: r, fc: fc, fn: fn, method: m})
	}
	if len(cases) == 0 {
		return
	}
	sort.Slice(cases, func(i, j int) bool { return cases[i].r.Name < cases[j].r.Name })
	if len(cases) > 800 {
		cases = cases[:800]
	}
	for i := range cases {
		shrinkModel(cases[i].r)
	}
	var src strings.Builder
	src.WriteString(`package asm

import (
	"encoding/json"
	"fmt"
	"testing"
)

type snesvcLine struct{ T, A, C uint64 }

func snesvcEmitReport(idx int, a *Emitter, idxs []int, lidxs []int, rets []uint64, panicked interface{}) {
	o := map[string]interface{}{"idx": idx, "rets": rets}
	bv := func(b bool) uint64 {
		if b {
			return 1
		}
		return 0
	}
	o["a"] = map[string]uint64{"flagsTracker": uint64(a.flagsTracker), "generateText": bv(a.generateText), "n": uint64(int64(a.n)), "base": uint64(a.base),
		"baseSet": bv(a.baseSet), "address": uint64(a.address), "code_len": uint64(len(a.code)), "code_cap": uint64(cap(a.code)), "code_nil": bv(a.code == nil),
		"lines_len": uint64(len(a.lines)), "lines_cap": uint64(cap(a.lines)), "lines_nil": bv(a.lines == nil),
		"labels_len": uint64(len(a.labels)), "danglingS8_len": uint64(len(a.danglingS8)), "danglingU16_len": uint64(len(a.danglingU16))}
	code := map[string]uint64{}
	for _, i := range idxs {
		if i >= 0 && i < len(a.code) {
			code[fmt.Sprint(i)] = uint64(a.code[i])
		}
	}
	o["code"] = code
	lines := map[string]snesvcLine{}
	for _, i := range lidxs {
		if i >= 0 && i < len(a.lines) {
			lines[fmt.Sprint(i)] = snesvcLine{uint64(int64(a.lines[i].asmLineType)), uint64(a.lines[i].address), uint64(int64(a.lines[i].byteCount))}
		}
	}
	o["lines"] = lines
	if panicked != nil {
		o["panic"] = fmt.Sprint(panicked)
	}
	b, _ := json.Marshal(o)
	fmt.Println("SNESVC_OUT", string(b))
}

func TestSnesvcReplayEmit(t *testing.T) {
`)
	type aux struct {
		idxs, lidxs []int
		skip        string
	}
	auxs := make([]aux, len(cases))
	for idx, cs := range cases {
		model := cs.r.Model
		get := func(n string) uint64 { v, _ := modelArg(model, n); return v }
		clen, ccap, n := get("a.code_len"), get("a.code_cap"), int64(get("a.n"))
		llen, lcap := get("a.lines_len"), get("a.lines_cap")
		if ccap < clen {
			ccap = clen
		}
		if lcap < llen {
			lcap = llen
		}
		if clen > emitMaxLen || ccap > emitMaxLen || llen > 1<<14 || lcap > 1<<14 || n < 0 || uint64(n) > clen {
			auxs[idx].skip = fmt.Sprintf("the model's emitter is too large or ill-formed to rebuild (len(code)=%d cap=%d n=%d len(lines)=%d)", clen, ccap, n, llen)
			continue
		}
		var b strings.Builder
		fmt.Fprintf(&b, "\tfunc() {\n")
		if get("a.code_nil") != 0 {
			fmt.Fprintf(&b, "\t\tvar code []byte\n")
		} else {
			fmt.Fprintf(&b, "\t\tcode := make([]byte, %d, %d)\n", clen, ccap)
		}
		codeM := modelArray(model, "a.code_arr")
		interest := map[int]bool{}
		for _, k := range sortedKeys(codeM) {
			if k < clen {
				fmt.Fprintf(&b, "\t\tcode[%d] = %#x\n", k, codeM[k]&0xff)
				interest[int(k)] = true
			}
		}
		for d := int64(-2); d < 20; d++ {
			if n+d >= 0 {
				interest[int(n+d)] = true
			}
		}
		fmt.Fprintf(&b, "\t\tlines := make([]asmLine, %d, %d)\n", llen, lcap)
		lt, la, lc := modelArray(model, "a.lines.asmLineType"), modelArray(model, "a.lines.address"), modelArray(model, "a.lines.byteCount")
		linterest := map[int]bool{}
		for _, k := range sortedKeys(lt) {
			if k < llen {
				fmt.Fprintf(&b, "\t\tlines[%d].asmLineType = asmLineType(int64(%d))\n", k, int64(lt[k]))
				linterest[int(k)] = true
			}
		}
		for _, k := range sortedKeys(la) {
			if k < llen {
				fmt.Fprintf(&b, "\t\tlines[%d].address = %#x\n", k, la[k]&0xffffffff)
				linterest[int(k)] = true
			}
		}
		for _, k := range sortedKeys(lc) {
			if k < llen {
				fmt.Fprintf(&b, "\t\tlines[%d].byteCount = int(int64(%d))\n", k, int64(lc[k]))
				linterest[int(k)] = true
			}
		}
		for d := int64(-3); d < 24; d++ {
			if int64(llen)+d >= 0 {
				linterest[int(int64(llen)+d)] = true
			}
		}
		if get("a.lines_nil") != 0 && llen == 0 {
			fmt.Fprintf(&b, "\t\tlines = nil\n")
		}
		fmt.Fprintf(&b, "\t\ta := &Emitter{flagsTracker: flagsTracker(%#x), generateText: %v, code: code, n: %d, lines: lines, base: %#x, baseSet: %v, address: %#x,\n\t\t\tlabels: map[string]uint32{}, danglingS8: map[string][]uint32{}, danglingU16: map[string][]uint32{}}\n",
			get("a.flagsTracker")&0xff, get("a.generateText") != 0, n, get("a.base")&0xffffffff, get("a.baseSet") != 0, get("a.address")&0xffffffff)
		var args []string
		for _, p := range cs.method.Params[1:] {
			t := p.Type()
			switch {
			case isString(t):
				args = append(args, `"L0"`)
			case isBool(t):
				args = append(args, fmt.Sprint(get(p.Name()) != 0))
			case isScalarType(t):
				wd, _, _ := bitsOf(t)
				args = append(args, fmt.Sprintf("%s(%#x)", types.TypeString(t, func(*types.Package) string { return "" }), get(p.Name())&mask(wd)))
			default:
				bl := get(p.Name() + "_len")
				if bl > emitMaxLen {
					auxs[idx].skip = "the model's data block is too large to rebuild"
					bl = 0
				}
				fmt.Fprintf(&b, "\t\targ_%s := make([]byte, %d)\n", p.Name(), bl)
				bm := modelArray(model, p.Name()+"_arr")
				for _, k := range sortedKeys(bm) {
					if k < bl {
						fmt.Fprintf(&b, "\t\targ_%s[%d] = %#x\n", p.Name(), k, bm[k]&0xff)
					}
				}
				for d := int64(0); d < int64(bl)+2 && d < 40; d++ {
					interest[int(n+d)] = true
				}
				args = append(args, "arg_"+p.Name())
			}
		}
		if auxs[idx].skip != "" {
			continue
		}
		var il, ll []int
		for k := range interest {
			il = append(il, k)
		}
		for k := range linterest {
			ll = append(ll, k)
		}
		sort.Ints(il)
		sort.Ints(ll)
		auxs[idx].idxs, auxs[idx].lidxs = il, ll
		lit := func(xs []int) string {
			var s []string
			for _, v := range xs {
				s = append(s, strconv.Itoa(v))
			}
			return "[]int{" + strings.Join(s, ", ") + "}"
		}
		fmt.Fprintf(&b, "\t\tidxs, lidxs := %s, %s\n", lit(il), lit(ll))
		fmt.Fprintf(&b, "\t\tdefer func() {\n\t\t\tif p := recover(); p != nil {\n\t\t\t\tsnesvcEmitReport(%d, a, idxs, lidxs, nil, p)\n\t\t\t}\n\t\t}()\n", idx)
		rs := cs.method.Signature.Results()
		var lhs, conv []string
		for i := 0; i < rs.Len(); i++ {
			t := rs.At(i).Type()
			switch {
			case isBool(t):
				lhs = append(lhs, fmt.Sprintf("r%d", i))
				conv = append(conv, fmt.Sprintf("func() uint64 { if r%d { return 1 }; return 0 }()", i))
			case isScalarType(t):
				lhs = append(lhs, fmt.Sprintf("r%d", i))
				conv = append(conv, fmt.Sprintf("uint64(r%d)", i))
			case types.Identical(t, types.Universe.Lookup("error").Type()):
				lhs = append(lhs, fmt.Sprintf("r%d", i))
				conv = append(conv, fmt.Sprintf("func() uint64 { if r%d != nil { return 1 }; return 0 }()", i))
			default:
				lhs = append(lhs, "_")
				conv = append(conv, "0")
			}
		}
		call := "a." + cs.method.Name() + "(" + strings.Join(args, ", ") + ")"
		allBlank := true
		for _, l := range lhs {
			if l != "_" {
				allBlank = false
			}
		}
		if len(lhs) > 0 && !allBlank {
			fmt.Fprintf(&b, "\t\t%s := %s\n", strings.Join(lhs, ", "), call)
		} else {
			fmt.Fprintf(&b, "\t\t%s\n", call)
		}
		fmt.Fprintf(&b, "\t\tsnesvcEmitReport(%d, a, idxs, lidxs, []uint64{%s}, nil)\n\t}()\n", idx, strings.Join(conv, ", "))
		src.WriteString(b.String())
	}
	src.WriteString("}\n")
	outTxt, _ := runOverlayTest(w, asmPath, src.String(), "^TestSnesvcReplayEmit$")
	obs := map[int]map[string]interface{}{}
	for _, l := range strings.Split(outTxt, "\n") {
		if i := strings.Index(l, "SNESVC_OUT "); i >= 0 {
			var o map[string]interface{}
			if json.Unmarshal([]byte(l[i+len("SNESVC_OUT "):]), &o) == nil {
				if f, ok := o["idx"].(float64); ok {
					obs[int(f)] = o
				}
			}
		}
	}
	for idx, cs := range cases {
		rep := map[string]interface{}{"method": fnName(cs.method), "how": "the model's emitter is rebuilt inside package asm (test injected with go test -overlay), the real method is called and the violated clause is re-evaluated on the observed post-state; maps are rebuilt empty"}
		if auxs[idx].skip != "" {
			rep["note"] = auxs[idx].skip
			out[cs.r.Name] = repResult{false, rep}
			continue
		}
		o := obs[idx]
		if o == nil {
			rep["note"] = "no output from the replay run"
			rep["go_test_output"] = tailStr(outTxt, 1200)
			out[cs.r.Name] = repResult{false, rep}
			continue
		}
		rep["observed"] = o
		ok := judgeEmit(w, cs, o, auxs[idx].idxs, auxs[idx].lidxs, rep)
		out[cs.r.Name] = repResult{ok, rep}
	}
}

// emitterState builds the concrete emitter object of one state. scal gives the scalar fields, code / lines the
// known cells (all other cells read as zero in both states).
func emitterState(x *Exec, st *State, obj, codeObj, linesObj *Object, et types.Type, scal func(string) uint64, code map[uint64]uint64, lines map[uint64][3]uint64) {
	stt := et.Underlying().(*types.Struct)
	s := StructV{}
	for i := 0; i < stt.NumFields(); i++ {
		f := stt.Field(i)
		switch u := f.Type().Underlying().(type) {
		case *types.Slice:
			if f.Name() == "code" {
				arr := ConstArr(ArrS(BV(64), BV(8)), Const(8, 0))
				for _, k := range sortedKeys(code) {
					arr = Store(arr, Const(64, k), Const(8, code[k]&0xff))
				}
				st.Heap[codeObj.ID] = ArrayT{T: arr, Len: 1 << 40, Elem: types.Typ[types.Uint8]}
				if scal("code_nil") != 0 {
					s.F = append(s.F, SliceV{Off: Const(64, 0), Len: Const(64, 0), Cap: Const(64, 0)})
				} else {
					s.F = append(s.F, SliceV{Obj: codeObj, Off: Const(64, 0), Len: Const(64, scal("code_len")), Cap: Const(64, scal("code_cap"))})
				}
				continue
			}
			// lines: struct of arrays in field order of asmLine
			lst := u.Elem().Underlying().(*types.Struct)
			l := StructV{}
			var ks []uint64
			for k := range lines {
				ks = append(ks, k)
			}
			sort.Slice(ks, func(a, b int) bool { return ks[a] < ks[b] })
			for j := 0; j < lst.NumFields(); j++ {
				lf := lst.Field(j)
				srt, _ := leafSort(lf.Type())
				var arr *Term
				if isString(lf.Type()) {
					arr = ConstArr(ArrS(BV(64), StrS), StrLit(""))
					l.F = append(l.F, StrV{arr})
					continue
				}
				arr = ConstArr(ArrS(BV(64), srt), Const(srt.W, 0))
				col := map[string]int{"asmLineType": 0, "address": 1, "byteCount": 2}[lf.Name()]
				for _, k := range ks {
					arr = Store(arr, Const(64, k), Const(srt.W, lines[k][col]&mask(srt.W)))
				}
				l.F = append(l.F, Scalar{arr})
			}
			st.Heap[linesObj.ID] = ArrayS{L: l, Len: 1 << 40, Elem: u.Elem()}
			if scal("lines_nil") != 0 && scal("lines_len") == 0 {
				s.F = append(s.F, SliceV{Off: Const(64, 0), Len: Const(64, 0), Cap: Const(64, 0)})
			} else {
				s.F = append(s.F, SliceV{Obj: linesObj, Off: Const(64, 0), Len: Const(64, scal("lines_len")), Cap: Const(64, scal("lines_cap"))})
			}
		case *types.Map:
			mo := x.newObj(f.Type(), f.Name())
			st.Heap[mo.ID] = x.emptyMap(u)
			s.F = append(s.F, MapV{Obj: mo})
		default:
			if isBool(f.Type()) {
				s.F = append(s.F, Scalar{BoolC(scal(f.Name()) != 0)})
			} else if wd, _, ok := bitsOf(f.Type()); ok {
				s.F = append(s.F, Scalar{Const(wd, scal(f.Name())&mask(wd))})
			} else {
				s.F = append(s.F, x.zero(f.Type()))
			}
		}
	}
	st.Heap[obj.ID] = s
}

func judgeEmit(w *World, cs emitReplayCase, o map[string]interface{}, idxs, lidxs []int, rep map[string]interface{}) bool {
	_, panicked := o["panic"]
	switch cs.r.Kind {
	case "bounds", "divzero", "nil", "slicebounds", "nopanic", "typeassert", "nilmap", "makeslice":
		rep["required"] = "no runtime panic"
		return panicked
	}
	var clause string
	wantPanic := false
	switch {
	case strings.Contains(cs.r.Name, "#panics.onlyif"):
		// violated when the function panics although no listed condition holds
		rep["required"] = "a panic only under: " + strings.Join(cs.fc.Panics, " || ")
		if !panicked {
			return false
		}
		clause = "!(" + strings.Join(cs.fc.Panics, ") && !(") + ")"
		wantPanic = true
	case strings.Contains(cs.r.Name, "#panics.if"):
		rep["required"] = "a panic under: " + strings.Join(cs.fc.Panics, " || ")
		if panicked {
			return false
		}
		clause = "(" + strings.Join(cs.fc.Panics, ") || (") + ")"
		wantPanic = true
	default:
		m := obClauseRe.FindStringSubmatch(cs.r.Name)
		if m == nil {
			return false
		}
		k, _ := strconv.Atoi(m[2])
		list := cs.fc.Ensures
		if m[1] == "onpanic" {
			list = cs.fc.OnPanic
			if !panicked {
				return false
			}
		} else if panicked {
			rep["required"] = "normal return"
			return cs.fc.MayPanic == false && !cs.fc.HasPanics
		}
		if k < 1 || k > len(list) {
			return false
		}
		clause = list[k-1]
		rep["required"] = clause
	}
	ok := false
	func() {
		defer func() {
			if rr := recover(); rr != nil {
				rep["clause_eval_error"] = fmt.Sprint(rr)
			}
		}()
		x := NewExec(w)
		pre, post := NewState(), NewState()
		model := cs.r.Model
		et := cs.fn.Params[0].Type().(*types.Pointer).Elem()
		obj := x.newObj(et, "a")
		codeObj := x.newObj(types.NewArray(types.Typ[types.Uint8], 1<<40), "a.code#backing")
		linesObj := x.newObj(types.NewArray(types.Typ[types.Int], 1<<40), "a.lines#backing")
		preCode := map[uint64]uint64{}
		for k, v := range modelArray(model, "a.code_arr") {
			preCode[k] = v
		}
		preLines := map[uint64][3]uint64{}
		for col, nm := range []string{"a.lines.asmLineType", "a.lines.address", "a.lines.byteCount"} {
			for k, v := range modelArray(model, nm) {
				e := preLines[k]
				e[col] = v
				preLines[k] = e
			}
		}
		emitterState(x, pre, obj, codeObj, linesObj, et, func(n string) uint64 { v, _ := modelArg(model, "a."+n); return v }, preCode, preLines)
		oa, _ := o["a"].(map[string]interface{})
		postCode := map[uint64]uint64{}
		if cm, okc := o["code"].(map[string]interface{}); okc {
			for k, v := range cm {
				i, _ := strconv.ParseUint(k, 10, 64)
				f, _ := v.(float64)
				postCode[i] = uint64(f)
			}
		}
		postLines := map[uint64][3]uint64{}
		if lm, okl := o["lines"].(map[string]interface{}); okl {
			for k, v := range lm {
				i, _ := strconv.ParseUint(k, 10, 64)
				if mm, okm := v.(map[string]interface{}); okm {
					t, _ := mm["T"].(float64)
					a, _ := mm["A"].(float64)
					c, _ := mm["C"].(float64)
					postLines[i] = [3]uint64{uint64(int64(t)), uint64(a), uint64(int64(c))}
				}
			}
		}
		emitterState(x, post, obj, codeObj, linesObj, et, func(n string) uint64 {
			f, _ := oa[n].(float64)
			return uint64(int64(f))
		}, postCode, postLines)
		args := []Value{Ptr{Obj: obj}}
		for _, p := range cs.fn.Params[1:] {
			t := p.Type()
			switch {
			case isString(t):
				args = append(args, StrV{StrLit("L0")})
			case isBool(t):
				v, _ := modelArg(model, p.Name())
				args = append(args, Scalar{BoolC(v != 0)})
			case isScalarType(t):
				wd, _, _ := bitsOf(t)
				v, _ := modelArg(model, p.Name())
				args = append(args, Scalar{Const(wd, v&mask(wd))})
			default:
				bo := x.newObj(types.NewArray(types.Typ[types.Uint8], 1<<40), p.Name()+"#backing")
				arr := ConstArr(ArrS(BV(64), BV(8)), Const(8, 0))
				bm := modelArray(model, p.Name()+"_arr")
				for _, k := range sortedKeys(bm) {
					arr = Store(arr, Const(64, k), Const(8, bm[k]&0xff))
				}
				av := ArrayT{T: arr, Len: 1 << 40, Elem: types.Typ[types.Uint8]}
				pre.Heap[bo.ID], post.Heap[bo.ID] = av, av
				bl, _ := modelArg(model, p.Name()+"_len")
				args = append(args, SliceV{Obj: bo, Off: Const(64, 0), Len: Const(64, bl), Cap: Const(64, bl)})
			}
		}
		var rets []Value
		if rl, okr := o["rets"].([]interface{}); okr {
			rs := cs.fn.Signature.Results()
			for i := 0; i < rs.Len() && i < len(rl); i++ {
				f, _ := rl[i].(float64)
				t := rs.At(i).Type()
				switch {
				case isBool(t):
					rets = append(rets, Scalar{BoolC(f != 0)})
				case isScalarType(t):
					wd, _, _ := bitsOf(t)
					rets = append(rets, Scalar{Const(wd, uint64(int64(f)))})
				default:
					// error / interface results: nil or some non-nil reference
					rets = append(rets, RefV{Const(32, uint64(f))})
				}
			}
		}
		cx := &verifyCtx{fn: cs.fn, c: cs.fc, args: args, pre: pre}
		var e *CEnv
		if wantPanic {
			e = cx.postEnv(x, pre, nil, nil)
		} else {
			e = cx.postEnv(x, post, rets, nil)
		}
		f := e.Formula(clause)
		rep["clause_value_on_observed_state"] = f.Op
		if wantPanic {
			ok = f.IsTrue()
		} else {
			ok = f.IsFalse()
		}
	}()
	return ok
}
