package main

// Lifted values (struct-of-arrays), maps, builtins (len cap append copy delete), range, trusted externals.

import (
	"fmt"
	"go/types"
	"os"
	"strings"
	"time"

	"golang.org/x/tools/go/ssa"
)

// ---- lifted values: a Value whose leaves hold arrays indexed by sort idx ----

func zeroTerm(s *Sort) *Term {
	switch s.Kind {
	case 0:
		return False()
	case 1:
		return Const(s.W, 0)
	case 2:
		return ConstArr(s, zeroTerm(s.Elem))
	}
	return StrLit("")
}

func (x *Exec) liftZero(t types.Type, idx *Sort) Value {
	if s, ok := leafSort(t); ok {
		arr := ConstArr(ArrS(idx, s), zeroTerm(s))
		return x.liftLeaf(arr, t)
	}
	switch u := t.Underlying().(type) {
	case *types.Struct:
		r := StructV{}
		for i := 0; i < u.NumFields(); i++ {
			r.F = append(r.F, x.liftZero(u.Field(i).Type(), idx))
		}
		return r
	case *types.Array:
		r := ArrayV{}
		for i := int64(0); i < u.Len(); i++ {
			r.E = append(r.E, x.liftZero(u.Elem(), idx))
		}
		return r
	case *types.Slice:
		es, ok := leafSort(u.Elem())
		if !ok {
			fail("liftZero: slice of %s", u.Elem())
		}
		inner := ArrS(BV(64), es)
		return SeqL{Len: ConstArr(ArrS(idx, BV(64)), Const(64, 0)), Data: ConstArr(ArrS(idx, inner), zeroTerm(inner)), Elem: u.Elem()}
	}
	fail("liftZero: unsupported %s", t)
	return nil
}

func (x *Exec) liftSym(t types.Type, idx *Sort, name string) Value {
	if s, ok := leafSort(t); ok {
		return x.liftLeaf(x.freshVar(name, ArrS(idx, s)), t)
	}
	switch u := t.Underlying().(type) {
	case *types.Struct:
		r := StructV{}
		for i := 0; i < u.NumFields(); i++ {
			r.F = append(r.F, x.liftSym(u.Field(i).Type(), idx, name+"."+u.Field(i).Name()))
		}
		return r
	case *types.Array:
		r := ArrayV{}
		for i := int64(0); i < u.Len(); i++ {
			r.E = append(r.E, x.liftSym(u.Elem(), idx, fmt.Sprintf("%s_%d", name, i)))
		}
		return r
	case *types.Slice:
		es, ok := leafSort(u.Elem())
		if !ok {
			fail("liftSym: slice of %s", u.Elem())
		}
		return SeqL{Len: x.freshVar(name+"_len", ArrS(idx, BV(64))), Data: x.freshVar(name+"_data", ArrS(idx, ArrS(BV(64), es))), Elem: u.Elem()}
	}
	fail("liftSym: unsupported %s", t)
	return nil
}

func (x *Exec) liftLeaf(arr *Term, t types.Type) Value {
	if isString(t) {
		return StrV{arr}
	}
	if isScalarType(t) {
		return Scalar{arr}
	}
	return RefV{arr}
}

// liftSelect reads element i of a lifted value (needs the state for slices: a fresh backing object)
func (x *Exec) liftSelect(l Value, i *Term, t types.Type) Value {
	switch lv := l.(type) {
	case Scalar:
		return Scalar{Select(lv.T, i)}
	case StrV:
		return StrV{Select(lv.T, i)}
	case RefV:
		return x.resolveRef(Select(lv.T, i), t)
	case StructV:
		u := t.Underlying().(*types.Struct)
		r := StructV{F: make([]Value, len(lv.F))}
		for k := range lv.F {
			r.F[k] = x.liftSelect(lv.F[k], i, u.Field(k).Type())
		}
		return r
	case ArrayV:
		u := t.Underlying().(*types.Array)
		r := ArrayV{E: make([]Value, len(lv.E))}
		for k := range lv.E {
			r.E[k] = x.liftSelect(lv.E[k], i, u.Elem())
		}
		return r
	case SeqL:
		return SeqV{Len: Select(lv.Len, i), Data: Select(lv.Data, i), Elem: lv.Elem}
	}
	fail("liftSelect: %T", l)
	return nil
}

// SeqV is a slice value read out of a lifted container: pure contents (len, data) without identity.
// It is turned into a SliceV over a fresh backing object when it enters the frame (materialize).
type SeqV struct {
	Len  *Term
	Data *Term
	Elem types.Type
}

func (x *Exec) materialize(st *State, v Value) Value {
	switch s := v.(type) {
	case SeqV:
		o := x.newObj(types.NewArray(s.Elem, 1<<40), "seq#backing")
		st.Heap[o.ID] = ArrayT{T: s.Data, Len: 1 << 40, Elem: s.Elem}
		c := x.freshVar("seqcap", BV(64))
		st.Assume = append(st.Assume, cmp("bvule", s.Len, c), cmp("bvult", c, Const(64, 1<<40)))
		return SliceV{Obj: o, Off: Const(64, 0), Len: s.Len, Cap: c, Nil: x.freshVarB("seqnil", s.Len)}
	case StructV:
		r := StructV{F: make([]Value, len(s.F))}
		for i := range s.F {
			r.F[i] = x.materialize(st, s.F[i])
		}
		return r
	case TupleV:
		r := TupleV{E: make([]Value, len(s.E))}
		for i := range s.E {
			r.E[i] = x.materialize(st, s.E[i])
		}
		return r
	}
	return v
}

// freshVarB: nil-ness of a slice read from a container is unknown, but a nil slice has length 0
func (x *Exec) freshVarB(name string, n *Term) *Term {
	if n.IsConst() && n.Val != 0 {
		return False()
	}
	b := x.freshVar(name, BoolS)
	return And(b, Eq(n, Const(64, 0)))
}

// seqOf extracts the pure contents of a slice value (for storing into a lifted container)
func (x *Exec) seqOf(st *State, v Value) (n *Term, data *Term) {
	switch s := v.(type) {
	case SeqV:
		return s.Len, s.Data
	case SliceV:
		if s.Obj == nil {
			et := Const(64, 0)
			return et, nil
		}
		arr := x.getPath(x.heapGet(st, s.Obj), s.Base)
		at, ok := arr.(ArrayT)
		if av, isV := arr.(ArrayV); isV && len(av.E) > 0 {
			// explicit array (e.g. d[:] over a local [N]byte): as an SMT array
			if s0, isS := av.E[0].(Scalar); isS {
				t := ConstArr(ArrS(BV(64), s0.T.S), zeroTerm(s0.T.S))
				for i, e := range av.E {
					t = Store(t, Const(64, uint64(i)), e.(Scalar).T)
				}
				at, ok = ArrayT{T: t, Len: int64(len(av.E))}, true
			}
		}
		if !ok {
			fail("seqOf: backing %T", arr)
		}
		if s.Off.IsConst() && s.Off.Val == 0 {
			return s.Len, at.T
		}
		k := Bound(fmt.Sprintf("k_b%d", x.nextFresh()), BV(64))
		return s.Len, Lambda(k, Select(at.T, bin("bvadd", s.Off, k)))
	}
	fail("seqOf: %T", v)
	return nil, nil
}

// seqify turns the slice-typed leaves of a value into their pure-contents form (as read out of a lifted container)
func (x *Exec) seqify(st *State, v Value) Value {
	switch s := v.(type) {
	case SliceV:
		n, data := x.seqOf(st, s)
		et := types.Type(types.Typ[types.Uint8])
		if s.Obj != nil {
			if at, ok := x.getPath(x.heapGet(st, s.Obj), s.Base).(ArrayT); ok {
				et = at.Elem
			}
		}
		if data == nil {
			srt, _ := leafSort(et)
			data = ConstArr(ArrS(BV(64), srt), zeroTerm(srt))
		}
		return SeqV{Len: n, Data: data, Elem: et}
	case StructV:
		r := StructV{F: make([]Value, len(s.F))}
		for i := range s.F {
			r.F[i] = x.seqify(st, s.F[i])
		}
		return r
	}
	return v
}

func (x *Exec) nextFresh() int { x.fresh++; return x.fresh }

func (x *Exec) liftStore(l Value, i *Term, v Value) Value {
	switch lv := l.(type) {
	case Scalar:
		return Scalar{Store(lv.T, i, v.(Scalar).T)}
	case StrV:
		return StrV{Store(lv.T, i, v.(StrV).T)}
	case RefV:
		return RefV{Store(lv.T, i, x.refOf(v))}
	case StructV:
		vv := v.(StructV)
		r := StructV{F: make([]Value, len(lv.F))}
		for k := range lv.F {
			r.F[k] = x.liftStore(lv.F[k], i, vv.F[k])
		}
		return r
	case ArrayV:
		vv := v.(ArrayV)
		r := ArrayV{E: make([]Value, len(lv.E))}
		for k := range lv.E {
			r.E[k] = x.liftStore(lv.E[k], i, vv.E[k])
		}
		return r
	case SeqL:
		if sv, ok := v.(SeqV); ok && sv.Data.S == lv.Data.S.Elem {
			return SeqL{Len: Store(lv.Len, i, sv.Len), Data: Store(lv.Data, i, sv.Data), Elem: lv.Elem}
		}
		fail("liftStore: slice leaf needs state (use liftStoreSt)")
	}
	fail("liftStore: %T", l)
	return nil
}

func (x *Exec) liftStoreSt(st *State, l Value, i *Term, v Value) Value {
	if lv, ok := l.(SeqL); ok {
		n, data := x.seqOf(st, v)
		if data == nil {
			data = zeroTerm(lv.Data.S.Elem)
		}
		return SeqL{Len: Store(lv.Len, i, n), Data: Store(lv.Data, i, data), Elem: lv.Elem}
	}
	if lv, ok := l.(StructV); ok {
		vv := v.(StructV)
		r := StructV{F: make([]Value, len(lv.F))}
		for k := range lv.F {
			r.F[k] = x.liftStoreSt(st, lv.F[k], i, vv.F[k])
		}
		return r
	}
	return x.liftStore(l, i, v)
}

// ---- maps ----
func keySort(t types.Type) *Sort {
	s, ok := leafSort(t)
	if !ok {
		fail("map key type %s not modelled", t)
	}
	return s
}

func (x *Exec) emptyMap(mt *types.Map) MapT {
	k := keySort(mt.Key())
	return MapT{Has: ConstArr(ArrS(k, BoolS), False()), Val: x.liftZero(mt.Elem(), k), K: k, KT: mt.Key(), VT: mt.Elem()}
}

func (x *Exec) symMap(mt *types.Map, name string) MapT {
	k := keySort(mt.Key())
	return MapT{Has: x.freshVar(name+"_has", ArrS(k, BoolS)), Val: x.liftSym(mt.Elem(), k, name+"_val"), K: k, KT: mt.Key(), VT: mt.Elem()}
}

func (x *Exec) mapGet(st *State, mv MapV) MapT {
	return x.heapGet(st, mv.Obj).(MapT)
}

func (x *Exec) lookup(st *State, fr *Frame, in *ssa.Lookup) Value {
	switch xv := x.val(fr, in.X).(type) {
	case StrV:
		idx := x.toIdx(x.val(fr, in.Index), in.Index.Type())
		x.oblige(st, fr, "bounds", x.site(fr, in), cmp("bvult", idx, x.strLen(xv)))
		return Scalar{x.strByte(xv, idx)}
	case MapV:
		mt := in.X.Type().Underlying().(*types.Map)
		var val Value
		var has *Term
		if xv.Obj == nil {
			val, has = x.zero(mt.Elem()), False()
		} else {
			m := x.mapGet(st, xv)
			k := x.leafTerm(x.val(fr, in.Index))
			has = Select(m.Has, k)
			v := x.materialize(st, x.liftSelect(m.Val, k, mt.Elem()))
			z := x.zero(mt.Elem())
			val = x.mergeLookup(has, v, z)
		}
		if in.CommaOk {
			return TupleV{E: []Value{val, Scalar{has}}}
		}
		return val
	}
	fail("Lookup on %T", x.val(fr, in.X))
	return nil
}

// mergeLookup: value if present else zero value
func (x *Exec) mergeLookup(has *Term, v, z Value) Value {
	switch vv := v.(type) {
	case SliceV:
		// absent key: nil slice of length 0
		return SliceV{Obj: vv.Obj, Base: vv.Base, Off: vv.Off, Len: Ite(has, vv.Len, Const(64, 0)), Cap: Ite(has, vv.Cap, Const(64, 0)), Nil: Or(Not(has), sliceNil(vv))}
	case RefV:
		return RefV{Ite(has, vv.T, Const(32, 0))}
	case FuncV:
		if has.IsTrue() {
			return v
		}
		return RefV{Ite(has, x.refOf(vv), Const(32, 0))}
	}
	return x.mergeV(has, v, z)
}

func (x *Exec) mapUpdate(st *State, mv MapV, key, val Value) {
	m := x.mapGet(st, mv)
	k := x.leafTerm(key)
	if x.storeHook != nil {
		x.storeHook(st, Ptr{Obj: mv.Obj})
	}
	st.Heap[mv.Obj.ID] = MapT{Has: Store(m.Has, k, True()), Val: x.liftStoreSt(st, m.Val, k, val), K: m.K, KT: m.KT, VT: m.VT}
}

// range over a map: ghost visited set. Range state is a heap object holding (visited: K→Bool).
type RangeV struct {
	Map  MapV
	Obj  *Object // holds Scalar{visited array}
	Str  *StrV
	Pos  *Object
	Type types.Type
}

func (x *Exec) rangeInit(st *State, fr *Frame, in *ssa.Range) Value {
	switch xv := x.val(fr, in.X).(type) {
	case MapV:
		mt := in.X.Type().Underlying().(*types.Map)
		o := x.newObj(types.Typ[types.Bool], "range.visited")
		st.Heap[o.ID] = Scalar{ConstArr(ArrS(keySort(mt.Key()), BoolS), False())}
		return RangeV{Map: xv, Obj: o, Type: mt}
	}
	fail("range over %T not modelled", x.val(fr, in.X))
	return nil
}

// rangeNext yields an arbitrary unvisited key of the current map, or stops iff none is left.
// Sound for loops that only insert/delete keys they have visited (Go leaves other cases unspecified).
func (x *Exec) rangeNext(st *State, fr *Frame, in *ssa.Next) Value {
	rv := x.val(fr, in.Iter).(RangeV)
	mt := rv.Type.(*types.Map)
	ks := keySort(mt.Key())
	vis := x.heapGet(st, rv.Obj).(Scalar).T
	if rv.Map.Obj == nil {
		return TupleV{E: []Value{Scalar{False()}, x.zero(mt.Key()), x.zero(mt.Elem())}}
	}
	m := x.mapGet(st, rv.Map)
	k := x.freshVar("rangekey", ks)
	ok := x.freshVar("rangeok", BoolS)
	// ok ⇒ k ∈ dom \ visited ;  ¬ok ⇒ ∀q. has[q] ⇒ visited[q]
	q := Bound(fmt.Sprintf("q_b%d", x.nextFresh()), ks)
	done := Forall(q, Implies(Select(m.Has, q), Select(vis, q)), Select(m.Has, q))
	st.Assume = append(st.Assume, Implies(ok, And(Select(m.Has, k), Not(Select(vis, k)))), Implies(Not(ok), done))
	st.Heap[rv.Obj.ID] = Scalar{Ite(ok, Store(vis, k, True()), vis)}
	val := x.materialize(st, x.liftSelect(m.Val, k, mt.Elem()))
	return TupleV{E: []Value{Scalar{ok}, x.leafValue(k, mt.Key()), val}}
}

// ---- builtins ----
func (x *Exec) builtin(st *State, fr *Frame, b *ssa.Builtin, args []Value, in *ssa.Call) []Outcome {
	ret := func(v Value) []Outcome { return []Outcome{{Kind: oReturn, St: st, Ret: v}} }
	switch b.Name() {
	case "len":
		switch a := args[0].(type) {
		case SliceV:
			return ret(Scalar{a.Len})
		case StrV:
			return ret(Scalar{x.strLen(a)})
		case MapV:
			return ret(Scalar{x.freshVar("maplen", BV(64))})
		}
	case "cap":
		if a, ok := args[0].(SliceV); ok {
			return ret(Scalar{a.Cap})
		}
	case "copy":
		dst := args[0].(SliceV)
		var srcLen *Term
		var srcAt func(k *Term) Value
		switch src := args[1].(type) {
		case SliceV:
			srcLen = src.Len
			if src.Obj != nil {
				sarr := x.getPath(x.heapGet(st, src.Obj), src.Base)
				srcAt = func(k *Term) Value {
					return x.getPath(sarr, []PathElem{{Field: -1, Idx: bin("bvadd", src.Off, k)}})
				}
			}
		case StrV:
			srcLen = x.strLen(src)
			srcAt = func(k *Term) Value { return Scalar{x.strByte(src, k)} }
		default:
			fail("copy from %T", args[1])
		}
		n := Ite(cmp("bvult", srcLen, dst.Len), srcLen, dst.Len)
		if dst.Obj == nil || srcAt == nil {
			return ret(Scalar{n})
		}
		darrV := x.getPath(x.heapGet(st, dst.Obj), dst.Base)
		p := Ptr{Obj: dst.Obj, Path: dst.Base}
		if srcLen.IsConst() && srcLen.Val <= 64 {
			// element-wise: position k is written iff k < len(dst) (memmove semantics: all sources read first)
			var vs []Value
			for k := uint64(0); k < srcLen.Val; k++ {
				vs = append(vs, srcAt(Const(64, k)))
			}
			cur := darrV
			// one entailment query: if the whole source fits under the path condition, every position is written
			allFit := srcLen.Val > 0 && x.implied(st, cmp("bvult", Const(64, srcLen.Val-1), dst.Len))
			for k := uint64(0); k < srcLen.Val; k++ {
				fits := cmp("bvult", Const(64, k), dst.Len)
				if allFit {
					fits = True()
				}
				if fits.IsFalse() {
					break
				}
				pe := []PathElem{{Field: -1, Idx: bin("bvadd", dst.Off, Const(64, k))}}
				nv := vs[k]
				if !fits.IsTrue() {
					nv = x.mergeV(fits, vs[k], x.getPath(cur, pe))
				}
				cur = x.setPath(cur, pe, nv)
			}
			x.store(st, p, cur)
			return ret(Scalar{n})
		}
		darr, ok := darrV.(ArrayT)
		if !ok {
			fail("copy of symbolic length into %T", darrV)
		}
		j := Bound(fmt.Sprintf("j_b%d", x.nextFresh()), BV(64))
		rel := bin("bvsub", j, dst.Off)
		inside := And(cmp("bvule", dst.Off, j), cmp("bvult", rel, n))
		nt := Lambda(j, Ite(inside, x.leafTerm(srcAt(rel)), Select(darr.T, j)))
		x.store(st, p, ArrayT{T: nt, Len: darr.Len, Elem: darr.Elem})
		return ret(Scalar{n})
	case "append":
		return ret(x.appendB(st, fr, args, in))
	case "ssa:wrapnilchk":
		// wrapper of a value-receiver method called through a pointer: panics iff the pointer is nil
		if p, ok := args[0].(Ptr); ok {
			if p.Obj == nil {
				x.oblige(st, fr, "nil", x.site(fr, in), False())
				return []Outcome{{Kind: oPanic, St: st, PanicS: "nil pointer in method wrapper"}}
			}
			return ret(p)
		}
	case "delete":
		mv := args[0].(MapV)
		if mv.Obj == nil {
			return ret(TupleV{})
		}
		m := x.mapGet(st, mv)
		if x.storeHook != nil {
			x.storeHook(st, Ptr{Obj: mv.Obj})
		}
		st.Heap[mv.Obj.ID] = MapT{Has: Store(m.Has, x.leafTerm(args[1]), False()), Val: m.Val, K: m.K, KT: m.KT, VT: m.VT}
		return ret(TupleV{})
	}
	fail("builtin not modelled: %s on %T", b.Name(), args[0])
	return nil
}

// appendB: the result is a slice over a FRESH backing object holding old[0:len] ++ new elements.
// When the old capacity allows, Go writes in place; that write to the old backing array is modelled
// too (conditional store), but the result never aliases its argument (stated engine assumption).
func (x *Exec) appendB(st *State, fr *Frame, args []Value, in *ssa.Call) Value {
	old := args[0].(SliceV)
	et := in.Type().Underlying().(*types.Slice).Elem()
	var addLen *Term
	var addAt func(k *Term) Value
	switch a := args[1].(type) {
	case SliceV:
		addLen = a.Len
		if a.Obj != nil {
			src := x.getPath(x.heapGet(st, a.Obj), a.Base)
			addAt = func(k *Term) Value { return x.getPath(src, []PathElem{{Field: -1, Idx: bin("bvadd", a.Off, k)}}) }
		}
	case StrV:
		addLen = x.strLen(a)
		addAt = func(k *Term) Value { return Scalar{x.strByte(a, k)} }
	default:
		fail("append of %T", args[1])
	}
	if !addLen.IsConst() || addLen.Val > 64 {
		// symbolic number of appended elements: contents by lambda, leaf by leaf for structured elements
		j := Bound(fmt.Sprintf("j_b%d", x.nextFresh()), BV(64))
		inOld := cmp("bvult", j, old.Len)
		var content Value
		if s, ok := leafSort(et); ok {
			var oldAt *Term = zeroTerm(s)
			if old.Obj != nil {
				oldAt = Select(x.getPath(x.heapGet(st, old.Obj), old.Base).(ArrayT).T, bin("bvadd", old.Off, j))
			}
			content = ArrayT{T: Lambda(j, Ite(inOld, oldAt, x.leafTerm(addAt(bin("bvsub", j, old.Len))))), Len: 1 << 40, Elem: et}
		} else {
			// struct elements: every leaf array is the lambda over the two sources' leaf arrays
			add, okA := args[1].(SliceV)
			if !okA || add.Obj == nil {
				fail("append of structured elements from %T", args[1])
			}
			addL := x.getPath(x.heapGet(st, add.Obj), add.Base).(ArrayS).L
			var oldL Value = x.liftZero(et, BV(64))
			if old.Obj != nil {
				oldL = x.getPath(x.heapGet(st, old.Obj), old.Base).(ArrayS).L
			}
			var zip func(a, b Value) Value
			zip = func(a, b Value) Value {
				switch av := a.(type) {
				case Scalar:
					return Scalar{Lambda(j, Ite(inOld, Select(av.T, bin("bvadd", old.Off, j)), Select(b.(Scalar).T, bin("bvadd", add.Off, bin("bvsub", j, old.Len)))))}
				case StrV:
					return StrV{Lambda(j, Ite(inOld, Select(av.T, bin("bvadd", old.Off, j)), Select(b.(StrV).T, bin("bvadd", add.Off, bin("bvsub", j, old.Len)))))}
				case RefV:
					return RefV{Lambda(j, Ite(inOld, Select(av.T, bin("bvadd", old.Off, j)), Select(b.(RefV).T, bin("bvadd", add.Off, bin("bvsub", j, old.Len)))))}
				case StructV:
					r := StructV{F: make([]Value, len(av.F))}
					for i := range av.F {
						r.F[i] = zip(av.F[i], b.(StructV).F[i])
					}
					return r
				}
				fail("append: lifted leaf %T", a)
				return nil
			}
			content = ArrayS{L: zip(oldL, addL), Len: 1 << 40, Elem: et}
		}
		o := x.newObj(types.NewArray(et, 1<<40), "append#backing")
		o.Owned = true
		st.Heap[o.ID] = content
		n := bin("bvadd", old.Len, addLen)
		c := x.freshVar("appendcap", BV(64))
		st.Assume = append(st.Assume, cmp("bvule", n, c), cmp("bvult", c, Const(64, 1<<40)))
		return SliceV{Obj: o, Off: Const(64, 0), Len: n, Cap: c}
	}
	cnt := addLen.Val
	var vals []Value
	for k := uint64(0); k < cnt; k++ {
		v := addAt(Const(64, k))
		if _, isStruct := v.(StructV); isStruct {
			v = x.seqify(st, v) // slice-typed fields enter a lifted container by content
		}
		vals = append(vals, v)
	}
	if old.Obj != nil && old.Obj.Owned && old.Off.IsConst() && old.Off.Val == 0 && len(old.Base) == 0 {
		// the slice came out of an earlier append and is extended in place (linear use of append results:
		// `s = append(s, ...)`; a stale copy of the old slice is assumed not to be used afterwards)
		content := x.heapGet(st, old.Obj)
		for k := uint64(0); k < cnt; k++ {
			content = x.setPath(content, []PathElem{{Field: -1, Idx: bin("bvadd", old.Len, Const(64, k))}}, vals[k])
		}
		st.Heap[old.Obj.ID] = content
		n := bin("bvadd", old.Len, Const(64, cnt))
		return SliceV{Obj: old.Obj, Off: Const(64, 0), Len: n, Cap: Ite(cmp("bvult", old.Cap, n), n, old.Cap)}
	}
	// fresh backing := old contents (rebased to offset 0) then the new elements
	var content Value
	if old.Obj == nil {
		content = x.zeroBacking(et)
	} else {
		oa := x.getPath(x.heapGet(st, old.Obj), old.Base)
		switch ov := oa.(type) {
		case ArrayT:
			if old.Off.IsConst() && old.Off.Val == 0 {
				content = ArrayT{T: ov.T, Len: 1 << 40, Elem: et}
			} else {
				j := Bound(fmt.Sprintf("j_b%d", x.nextFresh()), BV(64))
				content = ArrayT{T: Lambda(j, Select(ov.T, bin("bvadd", old.Off, j))), Len: 1 << 40, Elem: et}
			}
		case ArrayS:
			if old.Off.IsConst() && old.Off.Val == 0 {
				content = ArrayS{L: ov.L, Len: 1 << 40, Elem: et}
			} else {
				fail("append: offset slice of structs")
			}
		case ArrayV:
			// explicit array (e.g. oa[:0] over a local [N]byte): rebuild as SMT array
			s, ok := leafSort(et)
			if !ok {
				fail("append: explicit array of %s", et)
			}
			arr := x.freshVar("rebased", ArrS(BV(64), s))
			var t *Term = arr
			for i := range ov.E {
				rel := bin("bvsub", Const(64, uint64(i)), old.Off)
				t = Store(t, rel, x.leafTerm(ov.E[i]))
			}
			content = ArrayT{T: t, Len: 1 << 40, Elem: et}
		default:
			fail("append: backing %T", oa)
		}
		// in-place write into the old backing when capacity allows
		for k := uint64(0); k < cnt; k++ {
			pos := bin("bvadd", old.Len, Const(64, k))
			fits := cmp("bvult", pos, old.Cap)
			if fits.IsFalse() {
				continue
			}
			p := Ptr{Obj: old.Obj, Path: append(append([]PathElem(nil), old.Base...), PathElem{Field: -1, Idx: bin("bvadd", old.Off, pos)})}
			if fits.IsTrue() {
				x.store(st, p, vals[k])
			} else if _, isV := oa.(ArrayV); !isV {
				cur := x.load(st, p)
				x.store(st, p, x.mergeV(fits, x.seqify(st, vals[k]), x.seqify(st, cur)))
			}
		}
	}
	for k := uint64(0); k < cnt; k++ {
		content = x.setPath(content, []PathElem{{Field: -1, Idx: bin("bvadd", old.Len, Const(64, k))}}, vals[k])
	}
	o := x.newObj(types.NewArray(et, 1<<40), "append#backing")
	o.Owned = true
	st.Heap[o.ID] = content
	n := bin("bvadd", old.Len, Const(64, cnt))
	c := x.freshVar("appendcap", BV(64))
	st.Assume = append(st.Assume, cmp("bvule", n, c), cmp("bvult", c, Const(64, 1<<40)))
	return SliceV{Obj: o, Off: Const(64, 0), Len: n, Cap: c}
}

// ---- trusted externals (standard library) ----
func (x *Exec) external(st *State, fn *ssa.Function, args []Value, site string) []Outcome {
	name := fn.String()
	x.Trusted["extern:"+name]++
	ret := func(v Value) []Outcome { return []Outcome{{Kind: oReturn, St: st, Ret: v}} }
	switch {
	case name == "fmt.Errorf" || name == "errors.New":
		o := x.newObj(types.Typ[types.Int], "error@"+site)
		st.Heap[o.ID] = Scalar{Const(64, 0)}
		return ret(IfaceV{Dyn: types.NewPointer(types.Typ[types.Int]), V: Ptr{Obj: o}})
	case name == "fmt.Sprintf":
		return ret(StrV{x.freshVar("sprintf", StrS)})
	case name == "log.Println" || name == "log.Printf" || name == "fmt.Printf" || name == "fmt.Println":
		return ret(TupleV{})
	case name == "fmt.Fprintf" || name == "fmt.Fprint" || name == "fmt.Fprintln":
		// trusted: formats its arguments and writes only to w (an event on the writer); rendered text not modelled
		st.Events = append(st.Events, Event{Guard: True(), Callee: name, Args: []*Term{x.refOf(args[0])}})
		return ret(TupleV{E: []Value{Scalar{x.freshVar("fprintf_n", BV(64))}, RefV{x.freshVar("fprintf_err", BV(32))}}})
	case strings.HasSuffix(name, ".init"):
		return ret(TupleV{})
	case name == "(*strings.Builder).WriteString":
		n := x.strLen(args[1].(StrV))
		x.builderAdd(st, args[0].(Ptr), n)
		return ret(TupleV{E: []Value{Scalar{n}, IfaceV{}}})
	case name == "(*strings.Builder).Write":
		n := args[1].(SliceV).Len
		x.builderAdd(st, args[0].(Ptr), n)
		return ret(TupleV{E: []Value{Scalar{n}, IfaceV{}}})
	case name == "(*strings.Builder).WriteByte":
		x.builderAdd(st, args[0].(Ptr), Const(64, 1))
		return ret(IfaceV{})
	case name == "(*strings.Builder).Reset":
		x.builderSet(st, args[0].(Ptr), Const(64, 0))
		return ret(TupleV{})
	case name == "(*strings.Builder).Len":
		return ret(Scalar{x.builderLen(st, args[0].(Ptr))})
	case name == "(*strings.Builder).String":
		return ret(StrV{x.freshVar("builder_string", StrS)})
	case name == "bytes.NewReader":
		// trusted model: a *bytes.Reader is an object that holds exactly the slice it was given and yields
		// exactly those bytes, then io.EOF (documented behaviour of package bytes)
		o := x.newObj(types.NewStruct(nil, nil), "bytes.Reader")
		st.Heap[o.ID] = StructV{F: []Value{args[0]}}
		return ret(Ptr{Obj: o})
	case name == "(*bytes.Buffer).Bytes":
		// trusted model: a bytes.Buffer that is only written to holds its bytes in field 0 (nothing has been read
		// from it, so the unread portion is the whole content)
		return ret(x.load(st, args[0].(Ptr)).(StructV).F[0])
	case name == "(*bytes.Buffer).Len":
		return ret(Scalar{x.load(st, args[0].(Ptr)).(StructV).F[0].(SliceV).Len})
	case name == "(*bytes.Buffer).Grow":
		// reserves capacity only (a negative argument panics; the repository passes constants)
		if n, ok := args[1].(Scalar); !ok || !n.T.IsConst() || n.T.Val >= 1<<31 {
			fail("(*bytes.Buffer).Grow with a non-constant or negative argument is not modelled")
		}
		return ret(TupleV{})
	case name == "(*bytes.Buffer).Reset":
		bv := x.load(st, args[0].(Ptr)).(StructV)
		nb := StructV{F: append([]Value(nil), bv.F...)}
		sl := bv.F[0].(SliceV)
		nb.F[0] = SliceV{Obj: sl.Obj, Base: sl.Base, Off: sl.Off, Len: Const(64, 0), Cap: sl.Cap}
		x.store(st, args[0].(Ptr), nb)
		return ret(TupleV{})
	case name == "strconv.AppendInt":
		// appends the decimal rendering: length 1..20, content not modelled
		old := args[0].(SliceV)
		k := x.freshVar("appendint_n", BV(64))
		st.Assume = append(st.Assume, cmp("bvule", Const(64, 1), k), cmp("bvule", k, Const(64, 20)))
		o := x.newObj(types.NewArray(types.Typ[types.Uint8], 1<<40), "appendint#backing")
		o.Owned = true
		st.Heap[o.ID] = ArrayT{T: x.freshVar("appendint_arr", ArrS(BV(64), BV(8))), Len: 1 << 40, Elem: types.Typ[types.Uint8]}
		n := bin("bvadd", old.Len, k)
		return ret(SliceV{Obj: o, Off: Const(64, 0), Len: n, Cap: n})
	}
	if strings.Contains(site, ".init:") && fn.Signature.Results().Len() == 1 {
		// an unmodelled library call inside a package initialiser: the package-level variable it initialises is
		// given an arbitrary value of its type (over-approximation), so that a new package-level variable in the
		// repository does not stop every check before it starts
		x.Trusted["package initialiser: result of "+name+" taken as arbitrary"]++
		return ret(x.sym(st, fn.Signature.Results().At(0).Type(), "init_"+fn.Name()))
	}
	fail("external call not modelled: %s (at %s)", name, site)
	return nil
}

// strings.Builder is modelled as a byte counter kept in field 0 (addr) slot replaced by Opaque length
func (x *Exec) builderLen(st *State, p Ptr) *Term {
	v := x.load(st, p)
	if sv, ok := v.(StructV); ok {
		if s, ok2 := sv.F[0].(Scalar); ok2 && s.T.S.Kind == 1 && s.T.S.W == 64 {
			if s.T.Op == "var" {
				// a havocked counter (loop modifies clause): still the length of a real builder
				st.Assume = append(st.Assume, cmp("bvult", s.T, Const(64, 1<<40)))
			}
			return s.T
		}
		if isZeroValue(sv.F[0]) {
			return Const(64, 0)
		}
		// havocked builder (e.g. by a loop's modifies clause): an unknown length
		n := x.freshVar("builderlen", BV(64))
		st.Assume = append(st.Assume, cmp("bvult", n, Const(64, 1<<40)))
		nv := StructV{F: append([]Value(nil), sv.F...)}
		nv.F[0] = Scalar{n}
		x.store(st, p, nv)
		return n
	}
	return Const(64, 0)
}

// isZeroValue: the zero value of a pointer / reference field
func isZeroValue(v Value) bool {
	switch vv := v.(type) {
	case Ptr:
		return vv.Obj == nil
	case RefV:
		return vv.T.IsConst() && vv.T.Val == 0
	case nil:
		return true
	}
	return false
}
func (x *Exec) builderSet(st *State, p Ptr, n *Term) {
	v := x.load(st, p).(StructV)
	nv := StructV{F: append([]Value(nil), v.F...)}
	nv.F[0] = Scalar{n}
	x.store(st, p, nv)
}
func (x *Exec) builderAdd(st *State, p Ptr, n *Term) {
	x.builderSet(st, p, bin("bvadd", x.builderLen(st, p), n))
}

// implied asks the solver whether the path condition entails c (used to keep stores unconditional where the
// surrounding code has already established the guard). A "no" or a timeout only loses precision of the term
// shape, never soundness: the caller then keeps the conditional form.
func (x *Exec) implied(st *State, c *Term) bool {
	if c.IsTrue() {
		return true
	}
	if c.IsFalse() {
		return false
	}
	q := SMTQuery([]*Term{st.PC(), Not(c)}, nil)
	r := runSolver("z3-new", q, 2*time.Second)
	x.Stats["entailment_queries"]++
	if os.Getenv("SNESVC_DEBUG") != "" {
		fmt.Fprintf(os.Stderr, "DBG implied: %s %.2fs |q|=%d %s\n", r.Result, r.Seconds, len(q.Text), firstLine(r.Output))
	}
	return r.Result == "unsat"
}
