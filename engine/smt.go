package main

// SMT-LIB2 printing and the solver portfolio (z3-new 5.1.0 → cvc5 1.0.3 → z3 4.8.12).

import (
	"bytes"
	"context"
	"fmt"
	"os"
	"os/exec"
	"sort"
	"strconv"
	"strings"
	"sync"
	"sync/atomic"
	"time"
)

type smtPrinter struct {
	defs    map[int64]string
	order   []string
	vars    map[string]*Sort
	funs    map[string]string // uninterpreted function declarations
	strlits map[string]string // literal -> symbol
	sorts   map[string]bool
	quant   bool
	lambda  bool
}

func newPrinter() *smtPrinter {
	return &smtPrinter{defs: map[int64]string{}, vars: map[string]*Sort{}, funs: map[string]string{}, strlits: map[string]string{}, sorts: map[string]bool{}}
}

func (p *smtPrinter) noteSort(s *Sort) {
	switch s.Kind {
	case 2:
		p.noteSort(s.Idx)
		p.noteSort(s.Elem)
	case 3:
		p.sorts[s.UName] = true
	}
}

func constStr(t *Term) string {
	w := t.S.W
	if w%4 == 0 {
		return fmt.Sprintf("#x%0*x", w/4, t.Val)
	}
	return fmt.Sprintf("#b%0*b", w, t.Val)
}

func (p *smtPrinter) leaf(t *Term) (string, bool) {
	switch t.Op {
	case "const":
		return constStr(t), true
	case "true", "false":
		return t.Op, true
	case "var":
		p.vars[t.Name] = t.S
		p.noteSort(t.S)
		return "|" + t.Name + "|", true
	case "bound":
		return "|" + t.Name + "|", true
	case "strlit":
		n, ok := p.strlits[t.Name]
		if !ok {
			n = fmt.Sprintf("strlit!%d", len(p.strlits))
			p.strlits[t.Name] = n
			p.sorts["Str"] = true
		}
		return n, true
	}
	return "", false
}

func (p *smtPrinter) node(t *Term, as []string) string {
	switch t.Op {
	case "extract":
		return fmt.Sprintf("((_ extract %d %d) %s)", t.P1, t.P2, as[0])
	case "zext":
		return fmt.Sprintf("((_ zero_extend %d) %s)", t.P1, as[0])
	case "sext":
		return fmt.Sprintf("((_ sign_extend %d) %s)", t.P1, as[0])
	case "constarr":
		p.noteSort(t.S)
		return fmt.Sprintf("((as const %s) %s)", t.S, as[0])
	case "apply":
		if _, ok := p.funs[t.Name]; !ok {
			var ss []string
			for _, a := range t.Args {
				ss = append(ss, a.S.String())
				p.noteSort(a.S)
			}
			p.noteSort(t.S)
			p.funs[t.Name] = fmt.Sprintf("(declare-fun |%s| (%s) %s)", t.Name, strings.Join(ss, " "), t.S)
		}
		if len(as) == 0 {
			return "|" + t.Name + "|"
		}
		return "(|" + t.Name + "| " + strings.Join(as, " ") + ")"
	case "forall", "exists":
		p.quant = true
		body := as[1]
		if len(as) > 2 {
			body = fmt.Sprintf("(! %s :pattern (%s))", as[1], strings.Join(as[2:], " "))
		}
		return fmt.Sprintf("(%s ((%s %s)) %s)", t.Op, as[0], t.Args[0].S, body)
	case "lambda":
		p.lambda = true
		return fmt.Sprintf("(lambda ((%s %s)) %s)", as[0], t.Args[0].S, as[1])
	}
	return "(" + t.Op + " " + strings.Join(as, " ") + ")"
}

// smt prints a closed term with sharing through define-fun
func (p *smtPrinter) smt(t *Term) string {
	if s, ok := p.leaf(t); ok {
		return s
	}
	if n, ok := p.defs[t.id]; ok {
		return n
	}
	if t.bound {
		return p.inline(t)
	}
	as := make([]string, len(t.Args))
	for i, a := range t.Args {
		if t.Op == "forall" || t.Op == "exists" || t.Op == "lambda" {
			as[i] = p.inline(a)
		} else {
			as[i] = p.smt(a)
		}
	}
	r := p.node(t, as)
	n := fmt.Sprintf("?t%d", t.id)
	p.noteSort(t.S)
	p.order = append(p.order, fmt.Sprintf("(define-fun %s () %s %s)", n, t.S, r))
	p.defs[t.id] = n
	return n
}

// inline prints a term that mentions bound variables; closed subterms are still shared
func (p *smtPrinter) inline(t *Term) string {
	if s, ok := p.leaf(t); ok {
		return s
	}
	if !t.bound {
		return p.smt(t)
	}
	as := make([]string, len(t.Args))
	for i, a := range t.Args {
		as[i] = p.inline(a)
	}
	return p.node(t, as)
}

type Query struct {
	Text   string
	Quant  bool
	Lambda bool
	NVals  int
}

// strlenAxioms: a Go string is shorter than 2^40 bytes (and its length is not negative): one ground instance for every
// strlen(t) over a closed t, the quantified axiom when a length is taken of a term with bound variables
func strlenAxioms(asserts []*Term) []*Term {
	seen := map[int64]bool{}
	var out []*Term
	needQ := false
	var walk func(t *Term)
	walk = func(t *Term) {
		if seen[t.id] {
			return
		}
		seen[t.id] = true
		if t.Op == "apply" && t.Name == "strlen" {
			if t.bound {
				needQ = true
			} else {
				out = append(out, cmp("bvult", t, Const(64, 1<<40)))
			}
		}
		for _, a := range t.Args {
			walk(a)
		}
	}
	for _, a := range asserts {
		walk(a)
	}
	if needQ {
		sb := Bound("s_ax", StrS)
		out = append(out, Forall(sb, cmp("bvult", Apply("strlen", BV(64), sb), Const(64, 1<<40))))
	}
	return out
}

func SMTQuery(asserts []*Term, getvals []*Term) *Query {
	p := newPrinter()
	asserts = append(append([]*Term(nil), asserts...), strlenAxioms(asserts)...)
	var as []string
	for _, a := range asserts {
		as = append(as, p.smt(a))
	}
	var gv []string
	for _, g := range getvals {
		gv = append(gv, p.smt(g))
	}
	var out strings.Builder
	out.WriteString("(set-option :produce-models true)\n(set-logic ALL)\n")
	var ss []string
	for n := range p.sorts {
		ss = append(ss, n)
	}
	sort.Strings(ss)
	for _, n := range ss {
		fmt.Fprintf(&out, "(declare-sort %s 0)\n", n)
	}
	var lits []string
	for _, n := range p.strlits {
		lits = append(lits, n)
	}
	sort.Strings(lits)
	for _, n := range lits {
		fmt.Fprintf(&out, "(declare-const %s Str)\n", n)
	}
	if len(lits) > 1 {
		fmt.Fprintf(&out, "(assert (distinct %s))\n", strings.Join(lits, " "))
	}
	var names []string
	for n := range p.vars {
		names = append(names, n)
	}
	sort.Strings(names)
	for _, n := range names {
		fmt.Fprintf(&out, "(declare-const |%s| %s)\n", n, p.vars[n])
	}
	var fs []string
	for _, d := range p.funs {
		fs = append(fs, d)
	}
	sort.Strings(fs)
	for _, d := range fs {
		out.WriteString(d)
		out.WriteByte('\n')
	}
	for _, d := range p.order {
		out.WriteString(d)
		out.WriteByte('\n')
	}
	for _, a := range as {
		fmt.Fprintf(&out, "(assert %s)\n", a)
	}
	out.WriteString("(check-sat)\n")
	if len(gv) > 0 {
		fmt.Fprintf(&out, "(get-value (%s))\n", strings.Join(gv, " "))
	}
	return &Query{Text: out.String(), Quant: p.quant, Lambda: p.lambda, NVals: len(gv)}
}

// ---- solvers ----

type SolveResult struct {
	Result  string // sat | unsat | unknown | timeout | error
	Backend string
	Seconds float64
	Output  string
	Values  []uint64 // get-value results (bit-vectors / bools) when sat
	Tried   []string
}

var solverStats struct {
	sync.Mutex
	calls   map[string]int
	seconds map[string]float64
	decided map[string]int
}
var solverSem = make(chan struct{}, 16)
var queryCount int64

func init() {
	solverStats.calls = map[string]int{}
	solverStats.seconds = map[string]float64{}
	solverStats.decided = map[string]int{}
}

func runSolver(backend string, q *Query, timeout time.Duration) SolveResult {
	return runSolverCtx(context.Background(), backend, q, timeout)
}

func runSolverCtx(parent context.Context, backend string, q *Query, timeout time.Duration) SolveResult {
	select {
	case solverSem <- struct{}{}:
	case <-parent.Done():
		return SolveResult{Result: "cancelled", Backend: backend}
	}
	defer func() { <-solverSem }()
	if parent.Err() != nil {
		return SolveResult{Result: "cancelled", Backend: backend}
	}
	atomic.AddInt64(&queryCount, 1)
	f, err := os.CreateTemp(smtTmpDir(), "snesvc*.smt2")
	if err != nil {
		return SolveResult{Result: "error", Backend: backend, Output: err.Error()}
	}
	f.WriteString(q.Text)
	f.Close()
	defer os.Remove(f.Name())
	ctx, cancel := context.WithTimeout(parent, timeout+2*time.Second)
	defer cancel()
	var cmd *exec.Cmd
	ms := int(timeout / time.Millisecond)
	switch backend {
	case "cvc5":
		cmd = exec.CommandContext(ctx, "cvc5", "--produce-models", fmt.Sprintf("--tlimit=%d", ms), f.Name())
	case "z3-new":
		cmd = exec.CommandContext(ctx, "z3-new", fmt.Sprintf("-t:%d", ms), f.Name())
	default:
		cmd = exec.CommandContext(ctx, "/usr/bin/z3", fmt.Sprintf("-t:%d", ms), f.Name())
	}
	t0 := time.Now()
	var ob bytes.Buffer
	cmd.Stdout = &ob
	cmd.Stderr = &ob
	_ = cmd.Run()
	el := time.Since(t0).Seconds()
	s := strings.TrimSpace(ob.String())
	first, rest := s, ""
	if i := strings.IndexByte(s, '\n'); i >= 0 {
		first, rest = strings.TrimSpace(s[:i]), s[i+1:]
	}
	r := SolveResult{Backend: backend, Seconds: el, Output: s}
	if parent.Err() != nil {
		return SolveResult{Result: "cancelled", Backend: backend}
	}
	switch first {
	case "sat", "unsat":
		r.Result = first
	case "unknown", "timeout":
		r.Result = first
		if ctx.Err() != nil || el >= timeout.Seconds()*0.95 {
			r.Result = "timeout"
		}
	default:
		if ctx.Err() != nil {
			r.Result = "timeout"
		} else {
			r.Result = "error"
		}
	}
	if r.Result == "sat" && q.NVals > 0 {
		r.Values = parseValues(rest)
	}
	if len(r.Output) > 4000 {
		r.Output = r.Output[:4000] + "…"
	}
	solverStats.Lock()
	solverStats.calls[backend]++
	solverStats.seconds[backend] += el
	if r.Result == "sat" || r.Result == "unsat" {
		solverStats.decided[backend]++
	}
	solverStats.Unlock()
	return r
}

// parseValues extracts the values of a (get-value ...) answer in order; bools are 0/1.
func parseValues(s string) []uint64 {
	var out []uint64
	// answer shape: ((term value) (term value) ...); values are #x.., #b.., true, false.
	// Walk pairs by parenthesis depth: at depth 2 the last token before ')' is the value.
	depth := 0
	tok := ""
	last := ""
	flush := func() {
		if tok != "" {
			last = tok
			tok = ""
		}
	}
	inBar := false
	for i := 0; i < len(s); i++ {
		c := s[i]
		if inBar {
			tok += string(c)
			if c == '|' {
				inBar = false
			}
			continue
		}
		switch c {
		case '|':
			inBar = true
			tok += "|"
		case '(':
			flush()
			depth++
		case ')':
			flush()
			if depth == 2 {
				out = append(out, parseVal(last))
			}
			depth--
		case ' ', '\n', '\t', '\r':
			flush()
		default:
			tok += string(c)
		}
	}
	return out
}

func parseVal(s string) uint64 {
	switch {
	case s == "true":
		return 1
	case s == "false":
		return 0
	case strings.HasPrefix(s, "#x"):
		v, _ := strconv.ParseUint(s[2:], 16, 64)
		return v
	case strings.HasPrefix(s, "#b"):
		v, _ := strconv.ParseUint(s[2:], 2, 64)
		return v
	}
	return 0
}

var quickTimeout = 10 * time.Second

// Solve races the portfolio; the first definite answer wins and the other back ends are cancelled.
// all=true waits for every back end and reports a sat/unsat disagreement as an error.
func solveWithTimeout(q *Query, d time.Duration) SolveResult {
	return solveT(q, false, d)
}

func Solve(q *Query, all bool) SolveResult { return solveT(q, all, quickTimeout) }

func solveT(q *Query, all bool, tmo time.Duration) SolveResult {
	order := []string{"z3-new", "cvc5", "z3"}
	if q.Lambda {
		order = []string{"z3-new", "z3"}
	}
	return solveOrder(q, all, tmo, order)
}

// solve2 races the two newer back ends only (cheap first attempts)
func solve2(q *Query, tmo time.Duration) SolveResult {
	if q.Lambda {
		return runSolver("z3-new", q, tmo)
	}
	return solveOrder(q, false, tmo, []string{"z3-new", "cvc5"})
}

func solveOrder(q *Query, all bool, tmo time.Duration, order []string) SolveResult {
	type res struct {
		r SolveResult
	}
	ch := make(chan SolveResult, len(order))
	ctx, cancel := context.WithCancel(context.Background())
	defer cancel()
	for _, b := range order {
		b := b
		go func() { ch <- runSolverCtx(ctx, b, q, tmo) }()
	}
	var tried []string
	var firstDef *SolveResult
	var lastR SolveResult
	for range order {
		r := <-ch
		if r.Result == "cancelled" {
			continue
		}
		tried = append(tried, fmt.Sprintf("%s=%s(%.2fs)", r.Backend, r.Result, r.Seconds))
		lastR = r
		if r.Result == "sat" || r.Result == "unsat" {
			if firstDef == nil {
				rr := r
				firstDef = &rr
				if !all {
					cancel()
					break
				}
			} else if firstDef.Result != r.Result {
				return SolveResult{Result: "error", Backend: "portfolio", Output: "solver disagreement: " + strings.Join(tried, " "), Tried: tried}
			}
		}
	}
	if firstDef != nil {
		firstDef.Tried = tried
		return *firstDef
	}
	lastR.Tried = tried
	if lastR.Result != "timeout" {
		lastR.Result = "unknown"
	}
	return lastR
}

// Query files live in one per-process directory that main removes before it exits: a solver race that is still in
// flight when the verdict is printed would otherwise leave its file behind (deferred removals do not run on os.Exit).
var (
	smtTmpOnce sync.Once
	smtTmp     string
)

func smtTmpDir() string {
	smtTmpOnce.Do(func() {
		d, err := os.MkdirTemp("", "snesvc-q-*")
		if err == nil {
			smtTmp = d
		}
	})
	return smtTmp
}

func cleanupSmtTmp() {
	if smtTmp != "" {
		os.RemoveAll(smtTmp)
	}
}
