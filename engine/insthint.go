package main

import (
	"os"
	"strings"
)

// Instantiation hints. A conjunction that holds universally quantified hypotheses together with skolem constants
// (from a skolemised goal) is extended by the instances of those hypotheses at the skolem constants:
// and(H) is equivalent to and(H, H[sk]) since every instance is implied by its quantified formula, so the rewrite
// is sound in any polarity. It spares the solvers the e-matching through store/select chains they do badly.

const hintCapPerForall = 100
const hintCapTotal = 1200

// withInstHints adds the instances; with dropQ the quantified hypotheses themselves are then left out (only in
// positive positions of the asserted formula, where leaving a conjunct out weakens it: unsat stays conclusive,
// sat does not).
func withInstHints(t *Term, dropQ bool) *Term { return withInstHintsR(t, dropQ, 1) }

// withInstHintsR: rounds > 1 repeats the matching on the instances of the previous round (the instances of the
// first round bring new ground reads, e.g. "the array equals the old array at k" introduces old[k])
func withInstHintsR(t *Term, dropQ bool, rounds int) *Term {
	n := 0
	return instHints(propagateAsserted(t), true, dropQ, &n, map[int64]*Term{}, rounds)
}

// propagateAsserted: a top-level conjunct of the asserted formula is true wherever else it occurs (unit
// propagation; equivalence-preserving), and the negation of a conjunct "not X" is false. Path-relative facts of the
// form (path ==> fact) thereby lose the path conditions that are asserted anyway, so that quantified facts guarded
// by them surface as top-level conjuncts. Iterated to a fixed point (a few rounds).
func propagateAsserted(t *Term) *Term {
	if os.Getenv("SNESVC_NOPROP") != "" {
		return t
	}
	for round := 0; round < 4; round++ {
		if t.Op != "and" {
			return t
		}
		sub := map[int64]*Term{}
		for _, a := range t.Args {
			if a.Op == "not" {
				sub[a.Args[0].id] = False()
			} else if a.S == BoolS && a.Op != "and" {
				sub[a.id] = True()
			}
		}
		if len(sub) == 0 {
			return t
		}
		args := make([]*Term, len(t.Args))
		ch := false
		for i, a := range t.Args {
			// the conjunct itself stays; occurrences inside the other conjuncts are replaced
			var own int64
			if a.Op == "not" {
				own = a.Args[0].id
			} else {
				own = a.id
			}
			saved, had := sub[own]
			delete(sub, own)
			args[i] = Subst(a, sub)
			if had {
				sub[own] = saved
			}
			ch = ch || args[i] != a
		}
		if !ch {
			return t
		}
		t = And(args...)
	}
	return t
}

func instHints(t *Term, pos bool, dropQ bool, total *int, memo map[int64]*Term, rounds int) *Term {
	key := t.id
	if !pos {
		key = -key
	}
	if r, ok := memo[key]; ok {
		return r
	}
	var r *Term = t
	switch t.Op {
	case "not":
		in := instHints(t.Args[0], !pos, dropQ, total, memo, rounds)
		if in != t.Args[0] {
			r = Not(in)
		}
	case "and":
		if !pos {
			args := make([]*Term, len(t.Args))
			ch := false
			for i, a := range t.Args {
				args[i] = instHints(a, pos, dropQ, total, memo, rounds)
				ch = ch || args[i] != a
			}
			if ch {
				r = And(args...)
			}
			break
		}
		args := make([]*Term, len(t.Args))
		var foralls []*Term
		for i, a := range t.Args {
			args[i] = instHints(a, pos, dropQ, total, memo, rounds)
			if a.Op == "forall" {
				foralls = append(foralls, a)
			}
		}
		// guarded quantified facts: G ==> forall x. F, i.e. not(and(G..., not(forall)))
		type guarded struct {
			idx    int
			guards []*Term
			f      *Term
		}
		var gfs []guarded
		for i, a := range t.Args {
			if a.Op == "not" && a.Args[0].Op == "and" {
				in := a.Args[0]
				for j, b := range in.Args {
					if b.Op == "not" && b.Args[0].Op == "forall" {
						var gs []*Term
						for k, c := range in.Args {
							if k != j {
								gs = append(gs, c)
							}
						}
						gfs = append(gfs, guarded{i, gs, b.Args[0]})
					}
				}
			}
		}
		var extra []*Term
		if len(foralls) > 0 || len(gfs) > 0 {
			// two rounds: the instances of the first round bring new ground reads (e.g. "the array equals the old
			// array at k" introduces old[k]) that the second round matches
			seenInst := map[int64]bool{}
			scan := t
			for round := 0; round < rounds; round++ {
				sks := skolemsOf(scan)
				gsel := groundSelects(scan)
				added := 0
				for _, f := range foralls {
					for _, inst := range instancesOf(f, sks, gsel, total) {
						if !seenInst[inst.id] {
							seenInst[inst.id] = true
							extra = append(extra, inst)
							added++
						}
					}
				}
				for _, g := range gfs {
					for _, inst := range instancesOf(g.f, sks, gsel, total) {
						gi := Not(And(append(append([]*Term(nil), g.guards...), Not(inst))...))
						if !seenInst[gi.id] {
							seenInst[gi.id] = true
							extra = append(extra, gi)
							added++
						}
					}
				}
				if added == 0 || os.Getenv("SNESVC_ONEROUND") != "" {
					break
				}
				var qf []*Term
				for _, a := range t.Args {
					if a.Op != "forall" {
						qf = append(qf, a)
					}
				}
				scan = mk("and", BoolS, 0, "", 0, 0, append(qf, extra...)...)
			}
		}
		ch := len(extra) > 0
		for i := range args {
			if args[i] != t.Args[i] {
				ch = true
			}
		}
		if dropQ {
			for _, g := range gfs {
				args[g.idx] = True()
				ch = true
			}
			for i, a := range t.Args {
				if a.Op == "forall" {
					args[i] = True()
					ch = true
				}
			}
		}
		if ch {
			r = And(append(args, extra...)...)
		}
	}
	memo[key] = r
	return r
}

// skolemsOf: skolem constants occurring in the quantifier-free conjuncts of a conjunction
func skolemsOf(t *Term) []*Term {
	seen := map[int64]bool{}
	var out []*Term
	var walk func(t *Term)
	walk = func(t *Term) {
		if seen[t.id] {
			return
		}
		seen[t.id] = true
		if t.Op == "var" && strings.HasPrefix(t.Name, "sk_") {
			out = append(out, t)
		}
		for _, a := range t.Args {
			walk(a)
		}
	}
	for _, a := range t.Args {
		if a.Op != "forall" {
			walk(a)
		}
	}
	return out
}

// arrayKey: the base array variable of an array-valued term and the number of selects on the way to it
// (select(select(A, m), j) reads A at depth 1); stores are skipped. Bound variables may occur in index positions.
func arrayKey(a *Term) (int64, int, bool) {
	depth := 0
	for {
		switch a.Op {
		case "store":
			a = a.Args[0]
		case "select":
			a = a.Args[0]
			depth++
		case "var":
			return a.id, depth, true
		default:
			return 0, 0, false
		}
	}
}

type trigKey struct {
	root  int64
	depth int
}

// groundSelects: for every base array (and nesting depth), the closed index terms it is read at in the
// quantifier-free conjuncts of a conjunction (the ground side of select-triggers)
func groundSelects(t *Term) map[trigKey][]*Term {
	out := map[trigKey][]*Term{}
	seen := map[int64]bool{}
	have := map[[3]int64]bool{}
	var walk func(t *Term)
	walk = func(t *Term) {
		if seen[t.id] {
			return
		}
		seen[t.id] = true
		if t.Op == "forall" || t.Op == "lambda" {
			return
		}
		if t.Op == "select" && !t.bound {
			if root, depth, ok := arrayKey(t.Args[0]); ok {
				k := trigKey{root, depth}
				if hk := [3]int64{root, int64(depth), t.Args[1].id}; !have[hk] && len(out[k]) < 12 {
					have[hk] = true
					out[k] = append(out[k], t.Args[1])
				}
			}
		}
		for _, a := range t.Args {
			walk(a)
		}
	}
	for _, a := range t.Args {
		if a.Op != "forall" {
			walk(a)
		}
	}
	return out
}

// triggerArrays: the base arrays (with depth) that the body reads exactly at the bound variable bv
func triggerArrays(body, bv *Term) []trigKey {
	var out []trigKey
	seen := map[int64]bool{}
	var walk func(t *Term)
	walk = func(t *Term) {
		if seen[t.id] || !t.bound {
			return
		}
		seen[t.id] = true
		if t.Op == "select" && t.Args[1] == bv {
			if root, depth, ok := arrayKey(t.Args[0]); ok {
				out = append(out, trigKey{root, depth})
			}
		}
		for _, a := range t.Args {
			walk(a)
		}
	}
	walk(body)
	return out
}

// instancesOf: instances of a (nested) universal formula at the skolem constants, at the ground index terms
// matched by its select-triggers and — while the number of combinations stays under the cap — at the neighbours
// k+1 / k-1 of integer skolem constants (chains: element k against element k+1)
func instancesOf(f *Term, sks []*Term, gsel map[trigKey][]*Term, total *int) []*Term {
	if os.Getenv("SNESVC_NONEIGH") == "" && f.Args[1].Op != "forall" { // single binder only: neighbours of several binders are clutter
		var ext []*Term
		ext = append(ext, sks...)
		for _, sk := range sks {
			if sk.S.Kind == 1 && sk.S.W == 64 {
				ext = append(ext, bin("bvadd", sk, Const(64, 1)), bin("bvsub", sk, Const(64, 1)))
			}
		}
		if r := instancesOf1(f, ext, gsel, total); r != nil {
			return r
		}
	}
	return instancesOf1(f, sks, gsel, total)
}

// readsNeighbour: the body reads some array at bv plus / minus a constant
func readsNeighbour(body, bv *Term) bool {
	seen := map[int64]bool{}
	found := false
	var walk func(t *Term)
	walk = func(t *Term) {
		if found || seen[t.id] || !t.bound {
			return
		}
		seen[t.id] = true
		if t.Op == "select" {
			if i := t.Args[1]; (i.Op == "bvadd" || i.Op == "bvsub") && len(i.Args) == 2 && ((i.Args[0] == bv && i.Args[1].IsConst()) || (i.Args[1] == bv && i.Args[0].IsConst())) {
				found = true
				return
			}
		}
		for _, a := range t.Args {
			walk(a)
		}
	}
	walk(body)
	return found
}

func instancesOf1(f *Term, sks []*Term, gsel map[trigKey][]*Term, total *int) []*Term {
	var binders []*Term
	body := f
	for body.Op == "forall" {
		binders = append(binders, body.Args[0])
		body = body.Args[1]
	}
	cands := make([][]*Term, len(binders))
	combos := 1
	for i, b := range binders {
		have := map[int64]bool{}
		for _, s := range sks {
			if (s.S == b.S || s.S.String() == b.S.String()) && !have[s.id] {
				have[s.id] = true
				cands[i] = append(cands[i], s)
			}
		}
		// select-triggers: ground index terms at which the arrays read at b are read elsewhere
		for _, aid := range triggerArrays(body, b) {
			if os.Getenv("SNESVC_NOTRIG") != "" {
				break
			}
			for _, g := range gsel[aid] {
				if (g.S == b.S || g.S.String() == b.S.String()) && !have[g.id] && len(cands[i]) < 8 {
					have[g.id] = true
					cands[i] = append(cands[i], g)
				}
			}
		}
		if len(cands[i]) == 0 {
			return nil
		}
		combos *= len(cands[i])
	}
	if combos > hintCapPerForall {
		// too many combinations: keep the first candidates of every binder (skolem constants come first, then the
		// trigger matches in order of occurrence) so that the product fits
		per := 1
		for {
			p := 1
			for range binders {
				p *= per + 1
			}
			if p > hintCapPerForall {
				break
			}
			per++
		}
		for i := range cands {
			if len(cands[i]) > per {
				cands[i] = cands[i][:per]
			}
		}
	}
	var out []*Term
	idx := make([]int, len(binders))
	for {
		if *total >= hintCapTotal {
			return out
		}
		inst := body
		for i, b := range binders {
			inst = SubstBound(inst, b, cands[i][idx[i]])
		}
		out = append(out, inst)
		*total++
		k := len(idx) - 1
		for k >= 0 {
			idx[k]++
			if idx[k] < len(cands[k]) {
				break
			}
			idx[k] = 0
			k--
		}
		if k < 0 {
			break
		}
	}
	return out
}
