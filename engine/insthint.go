package main

import "strings"

// Instantiation hints. A conjunction that holds universally quantified hypotheses together with skolem constants
// (from a skolemised goal) is extended by the instances of those hypotheses at the skolem constants:
// and(H) is equivalent to and(H, H[sk]) since every instance is implied by its quantified formula, so the rewrite
// is sound in any polarity. It spares the solvers the e-matching through store/select chains they do badly.

const hintCapPerForall = 64
const hintCapTotal = 600

// withInstHints adds the instances; with dropQ the quantified hypotheses themselves are then left out (only in
// positive positions of the asserted formula, where leaving a conjunct out weakens it: unsat stays conclusive,
// sat does not).
func withInstHints(t *Term, dropQ bool) *Term {
	n := 0
	return instHints(t, true, dropQ, &n, map[int64]*Term{})
}

func instHints(t *Term, pos bool, dropQ bool, total *int, memo map[int64]*Term) *Term {
	key := t.id
	if !pos {
		key = -key
	}
	if r, ok := memo[key]; ok {
		return r
	}
	var r *Term = t
	switch t.Op {
	case "not":
		in := instHints(t.Args[0], !pos, dropQ, total, memo)
		if in != t.Args[0] {
			r = Not(in)
		}
	case "and":
		if !pos {
			args := make([]*Term, len(t.Args))
			ch := false
			for i, a := range t.Args {
				args[i] = instHints(a, pos, dropQ, total, memo)
				ch = ch || args[i] != a
			}
			if ch {
				r = And(args...)
			}
			break
		}
		args := make([]*Term, len(t.Args))
		var foralls []*Term
		for i, a := range t.Args {
			args[i] = instHints(a, pos, dropQ, total, memo)
			if a.Op == "forall" {
				foralls = append(foralls, a)
			}
		}
		var extra []*Term
		if len(foralls) > 0 {
			sks := skolemsOf(t)
			if len(sks) > 0 {
				for _, f := range foralls {
					extra = append(extra, instancesOf(f, sks, total)...)
				}
			}
		}
		ch := len(extra) > 0
		for i := range args {
			if args[i] != t.Args[i] {
				ch = true
			}
		}
		if ch {
			if dropQ {
				for i, a := range t.Args {
					if a.Op == "forall" {
						args[i] = True()
					}
				}
			}
			r = And(append(args, extra...)...)
		}
	}
	memo[key] = r
	return r
}

// skolemsOf: skolem constants occurring in the quantifier-free conjuncts of a conjunction
func skolemsOf(t *Term) []*Term {
	seen := map[int64]bool{}
	var out []*Term
	var walk func(t *Term)
	walk = func(t *Term) {
		if seen[t.id] {
			return
		}
		seen[t.id] = true
		if t.Op == "var" && strings.HasPrefix(t.Name, "sk_") {
			out = append(out, t)
		}
		for _, a := range t.Args {
			walk(a)
		}
	}
	for _, a := range t.Args {
		if a.Op != "forall" {
			walk(a)
		}
	}
	return out
}

func instancesOf(f *Term, sks []*Term, total *int) []*Term {
	var binders []*Term
	body := f
	for body.Op == "forall" {
		binders = append(binders, body.Args[0])
		body = body.Args[1]
	}
	cands := make([][]*Term, len(binders))
	combos := 1
	for i, b := range binders {
		for _, s := range sks {
			if s.S == b.S || s.S.String() == b.S.String() {
				cands[i] = append(cands[i], s)
			}
		}
		if len(cands[i]) == 0 {
			return nil
		}
		combos *= len(cands[i])
		if combos > hintCapPerForall {
			return nil
		}
	}
	var out []*Term
	idx := make([]int, len(binders))
	for {
		if *total >= hintCapTotal {
			return out
		}
		inst := body
		for i, b := range binders {
			inst = SubstBound(inst, b, cands[i][idx[i]])
		}
		out = append(out, inst)
		*total++
		k := len(idx) - 1
		for k >= 0 {
			idx[k]++
			if idx[k] < len(cands[k]) {
				break
			}
			idx[k] = 0
			k--
		}
		if k < 0 {
			break
		}
	}
	return out
}
