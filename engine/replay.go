package main

// Counterexample replay on the real code: the solver's model is turned into an in-package Go test,
// injected with `go test -overlay` (nothing is written into /repo), and the violated clause is
// re-evaluated on the observed results.

import (
	"bytes"
	"context"
	"encoding/json"
	"fmt"
	"go/types"
	"os"
	"os/exec"
	"path/filepath"
	"regexp"
	"strconv"
	"strings"
	"time"

	"golang.org/x/tools/go/ssa"
)

func (w *World) contractByFnName(name string) (*FnContract, *ssa.Function) {
	for _, c := range w.contracts {
		if fn := w.resolveFn(c); fn != nil && fnName(fn) == name {
			return c, fn
		}
	}
	return nil, nil
}

func pkgDir(w *World, path string) string {
	if pp := w.ppkgs[path]; pp != nil && len(pp.GoFiles) > 0 {
		return filepath.Dir(pp.GoFiles[0])
	}
	return ""
}

// runOverlayTest injects src as a test file of package pkgPath and runs it. Returns combined output.
func runOverlayTest(w *World, pkgPath, src, runPat string) (string, error) {
	dir := pkgDir(w, pkgPath)
	if dir == "" {
		return "", fmt.Errorf("no directory for %s", pkgPath)
	}
	tmp, err := os.MkdirTemp("", "snesvc-replay")
	if err != nil {
		return "", err
	}
	defer os.RemoveAll(tmp)
	tf := filepath.Join(tmp, "replay_test.go")
	os.WriteFile(tf, []byte(src), 0o644)
	ov := map[string]map[string]string{"Replace": {filepath.Join(dir, "zz_snesvc_replay_test.go"): tf}}
	ovb, _ := json.Marshal(ov)
	ovf := filepath.Join(tmp, "ov.json")
	os.WriteFile(ovf, ovb, 0o644)
	ctx, cancel := context.WithTimeout(context.Background(), 180*time.Second)
	defer cancel()
	cmd := exec.CommandContext(ctx, "bash", "-c", "ulimit -v 8000000; exec go test -tags verif -overlay "+ovf+" -vet=off -count=1 -timeout 60s -run '"+runPat+"' -v "+pkgPath)
	cmd.Dir = "/verif"
	cmd.Env = append(os.Environ(), "GOFLAGS=-mod=mod", "GOPROXY=off", "GOSUMDB=off", "GOTOOLCHAIN=local")
	var ob bytes.Buffer
	cmd.Stdout = &ob
	cmd.Stderr = &ob
	err = cmd.Run()
	return ob.String(), err
}

func modelArg(model map[string]uint64, name string) (uint64, bool) {
	pref := sanitize(name) + "!"
	for k, v := range model {
		if strings.HasPrefix(k, pref) && !strings.Contains(k[len(pref):], "[") {
			if _, err := strconv.Atoi(k[len(pref):]); err == nil {
				return v, true
			}
		}
	}
	return 0, false
}

var obClauseRe = regexp.MustCompile(`#(ensures|onpanic)(\d+)`)

// replayScalar replays a counterexample of a function whose parameters are all scalars.
func replayScalar(w *World, c *Checker, r *ObResult) (bool, interface{}) {
	if r.ob == nil {
		return false, nil
	}
	fc, fn := w.contractByFnName(r.ob.Fn)
	if fn == nil {
		// obligations recorded inside inlined callees carry the callee's name: replay the enclosing lemma instead
		return false, map[string]string{"note": "obligation belongs to an inlined callee; no direct replay"}
	}
	for _, p := range fn.Params {
		if !isScalarType(p.Type()) {
			return false, map[string]string{"note": "structured inputs: generic replay not available for this obligation"}
		}
	}
	pkgPath := fc.Pkg
	pkgName := w.ppkgs[pkgPath].Types.Name()
	qual := func(p *types.Package) string {
		if p.Path() == pkgPath {
			return ""
		}
		return p.Name()
	}
	imports := map[string]bool{}
	tstr := func(t types.Type) string {
		return types.TypeString(t, func(p *types.Package) string {
			if p.Path() != pkgPath {
				imports[p.Path()] = true
			}
			return qual(p)
		})
	}
	var args []string
	inputs := map[string]uint64{}
	var argVals []Value
	for _, p := range fn.Params {
		v, _ := modelArg(r.Model, p.Name())
		inputs[p.Name()] = v
		wd, _, _ := bitsOf(p.Type())
		if isBool(p.Type()) {
			args = append(args, fmt.Sprintf("%v", v != 0))
			argVals = append(argVals, Scalar{BoolC(v != 0)})
		} else {
			args = append(args, fmt.Sprintf("%s(%#x)", tstr(p.Type()), v&mask(wd)))
			argVals = append(argVals, Scalar{Const(wd, v)})
		}
	}
	call := fn.Name() + "(" + strings.Join(args, ", ") + ")"
	if fn.Signature.Recv() != nil {
		call = args[0] + "." + fn.Name() + "(" + strings.Join(args[1:], ", ") + ")"
	}
	rs := fn.Signature.Results()
	var lhs, prints []string
	for i := 0; i < rs.Len(); i++ {
		lhs = append(lhs, fmt.Sprintf("r%d", i))
		t := rs.At(i).Type()
		switch {
		case isBool(t):
			prints = append(prints, fmt.Sprintf("fmt.Sprintf(\"b:%%v\", r%d)", i))
		case isScalarType(t):
			prints = append(prints, fmt.Sprintf("fmt.Sprintf(\"i:%%d\", uint64(r%d))", i))
		default:
			prints = append(prints, fmt.Sprintf("fmt.Sprintf(\"e:%%v\", r%d)", i))
		}
	}
	var src strings.Builder
	fmt.Fprintf(&src, "package %s\n\nimport (\n\t\"fmt\"\n\t\"testing\"\n", pkgName)
	for ip := range imports {
		fmt.Fprintf(&src, "\t%q\n", ip)
	}
	src.WriteString(")\n\nfunc TestSnesvcReplay(t *testing.T) {\n\tdefer func() {\n\t\tif r := recover(); r != nil {\n\t\t\tfmt.Printf(\"SNESVC_PANIC %v\\n\", r)\n\t\t}\n\t}()\n")
	if len(lhs) > 0 {
		fmt.Fprintf(&src, "\t%s := %s\n", strings.Join(lhs, ", "), call)
		fmt.Fprintf(&src, "\tfmt.Println(\"SNESVC_OUT\", %s)\n", strings.Join(prints, ", "))
	} else {
		fmt.Fprintf(&src, "\t%s\n\tfmt.Println(\"SNESVC_OUT\")\n", call)
	}
	src.WriteString("}\n")
	out, _ := runOverlayTest(w, pkgPath, src.String(), "^TestSnesvcReplay$")
	rep := map[string]interface{}{"test_source": src.String(), "inputs": inputs}
	panicked := strings.Contains(out, "SNESVC_PANIC")
	var outLine string
	for _, l := range strings.Split(out, "\n") {
		if strings.HasPrefix(l, "SNESVC_OUT") || strings.HasPrefix(l, "SNESVC_PANIC") {
			outLine = l
		}
	}
	rep["observed"] = outLine
	if outLine == "" {
		rep["go_test_output"] = tailStr(out, 2000)
		return false, rep
	}
	switch r.Kind {
	case "bounds", "divzero", "nil", "slicebounds", "nopanic", "typeassert", "nilmap", "makeslice":
		rep["required"] = "no panic"
		return panicked, rep
	case "panics":
		if strings.Contains(r.Name, "#panics.if") {
			rep["required"] = "panic expected for this input"
			return !panicked, rep
		}
		rep["required"] = "no panic expected for this input"
		return panicked, rep
	}
	if panicked {
		rep["required"] = "normal return"
		return true, rep
	}
	m := obClauseRe.FindStringSubmatch(r.Name)
	if m == nil || m[1] != "ensures" {
		return false, rep
	}
	k, _ := strconv.Atoi(m[2])
	if k < 1 || k > len(fc.Ensures) {
		return false, rep
	}
	clause := fc.Ensures[k-1]
	rep["required"] = clause
	// parse observed results
	fields := strings.Fields(strings.TrimPrefix(outLine, "SNESVC_OUT"))
	// error strings may contain spaces: re-split on the type prefixes
	vals := splitOut(strings.TrimSpace(strings.TrimPrefix(outLine, "SNESVC_OUT")))
	_ = fields
	if len(vals) != rs.Len() {
		return false, rep
	}
	x := NewExec(w)
	st := NewState()
	var rets []Value
	for i, s := range vals {
		t := rs.At(i).Type()
		switch {
		case strings.HasPrefix(s, "b:"):
			rets = append(rets, Scalar{BoolC(s == "b:true")})
		case strings.HasPrefix(s, "i:"):
			u, _ := strconv.ParseUint(s[2:], 10, 64)
			wd, _, _ := bitsOf(t)
			rets = append(rets, Scalar{Const(wd, u)})
		default:
			msg := s[2:]
			if msg == "<nil>" {
				rets = append(rets, IfaceV{})
			} else if v := w.globalErrorByMessage(x, st, msg); v != nil {
				rets = append(rets, v)
			} else {
				o := x.newObj(types.Typ[types.Int], "observed error: "+msg)
				rets = append(rets, IfaceV{Dyn: types.NewPointer(types.Typ[types.Int]), V: Ptr{Obj: o}})
			}
		}
	}
	ok := false
	func() {
		defer func() {
			if rr := recover(); rr != nil {
				rep["clause_eval_error"] = fmt.Sprint(rr)
			}
		}()
		cx := &verifyCtx{fn: fn, c: fc, args: argVals, pre: st}
		e := cx.postEnv(x, st, rets, nil)
		f := e.Formula(clause)
		rep["clause_value_on_observed_results"] = f.Op
		ok = f.IsFalse()
	}()
	return ok, rep
}

func splitOut(s string) []string {
	// values are printed as "b:..", "i:..", "e:.." separated by spaces; error text may contain spaces
	var out []string
	re := regexp.MustCompile(`(^| )([bie]):`)
	idx := re.FindAllStringIndex(s, -1)
	for i, m := range idx {
		start := m[0]
		if s[start] == ' ' {
			start++
		}
		end := len(s)
		if i+1 < len(idx) {
			end = idx[i+1][0]
		}
		out = append(out, strings.TrimSpace(s[start:end]))
	}
	return out
}

func tailStr(s string, n int) string {
	if len(s) > n {
		return s[len(s)-n:]
	}
	return s
}

// globalErrorByMessage maps an observed error text back to a package-level error value
func (w *World) globalErrorByMessage(x *Exec, st *State, msg string) Value {
	if msg == "address is not mapped" {
		if p := w.pkgs[repoPath+"/mapping/util"]; p != nil {
			if g, ok := p.Members["ErrUnmappedAddress"].(*ssa.Global); ok {
				return x.load(st, Ptr{Obj: w.globalObj(g)})
			}
		}
	}
	return nil
}
