package main

// Replay of counterexamples of harness lemmas (CPU): the lemma function itself is called natively, in a
// test injected into package verif/lemmas, on a CPU / RAM built from the solver's model. Observed
// results and post-state are dumped as JSON and the violated clause is re-evaluated on them.

import (
	"encoding/hex"
	"encoding/json"
	"fmt"
	"go/types"
	"regexp"
	"sort"
	"strconv"
	"strings"

	"golang.org/x/tools/go/ssa"
)

var opRe = regexp.MustCompile(`@op=([0-9A-F]{2})(\[(\w+)\])?`)
var lemmaRe = regexp.MustCompile(`verif/lemmas\.(\w+)#`)

type cpuReplayCase struct {
	r     *ObResult
	lemma string
	op    int
	fc    *FnContract
	fn    *ssa.Function
}

func replayCPU(w *World, todo []*ObResult, out map[string]repResult) {
	var cases []cpuReplayCase
	for _, r := range todo {
		m := opRe.FindStringSubmatch(r.Name)
		if m == nil {
			continue
		}
		op64, _ := strconv.ParseInt(m[1], 16, 32)
		lemma := m[3]
		if lemma == "" {
			if lm := lemmaRe.FindStringSubmatch(r.Name); lm != nil {
				lemma = lm[1]
			}
		}
		fc := w.contracts["verif/lemmas."+lemma]
		if fc == nil {
			continue
		}
		fn := w.resolveFn(fc)
		if fn == nil {
			continue
		}
		cases = append(cases, cpuReplayCase{r: r, lemma: lemma, op: int(op64), fc: fc, fn: fn})
	}
	if len(cases) == 0 {
		return
	}
	// one representative per (lemma, op, kind-site) is enough to confirm; cap the batch
	sort.Slice(cases, func(i, j int) bool { return cases[i].r.Name < cases[j].r.Name })
	const maxCases = 400
	if len(cases) > maxCases {
		cases = cases[:maxCases]
	}
	var src strings.Builder
	src.WriteString(`package lemmas

import (
	"encoding/json"
	"fmt"
	"reflect"
	"testing"

	"github.com/alttpo/snes/emulator/cpu65c816"
	"github.com/alttpo/snes/emulator/cpualt"
)

var _ = cpu65c816.CPUFrequency
var _ cpualt.BusReader

func snesvcDump(prefix string, v reflect.Value, out map[string]uint64) {
	t := v.Type()
	for i := 0; i < t.NumField(); i++ {
		f := t.Field(i)
		if !f.IsExported() {
			continue
		}
		fv := v.Field(i)
		switch fv.Kind() {
		case reflect.Uint8, reflect.Uint16, reflect.Uint32, reflect.Uint64, reflect.Uint:
			out[prefix+f.Name] = fv.Uint()
		case reflect.Int, reflect.Int8, reflect.Int16, reflect.Int32, reflect.Int64:
			out[prefix+f.Name] = uint64(fv.Int())
		case reflect.Bool:
			if fv.Bool() {
				out[prefix+f.Name] = 1
			} else {
				out[prefix+f.Name] = 0
			}
		case reflect.Struct:
			if f.Name != "Bus" {
				snesvcDump(prefix+f.Name+".", fv, out)
			}
		}
	}
}

func snesvcReport(idx int, rets []interface{}, cpus map[string]interface{}, rams [][]byte, panicked interface{}) {
	for i, r := range rets {
		if rv := reflect.ValueOf(r); rv.Kind() == reflect.Struct {
			m := map[string]uint64{}
			snesvcDump("", rv, m)
			rets[i] = m
		}
	}
	o := map[string]interface{}{"idx": idx, "rets": rets}
	for n, c := range cpus {
		m := map[string]uint64{}
		snesvcDump("", reflect.ValueOf(c).Elem(), m)
		o[n] = m
	}
	if panicked != nil {
		o["panic"] = fmt.Sprint(panicked)
	}
	if len(rams) == 2 {
		for a := range rams[0] {
			if rams[0][a] != rams[1][a] {
				o["memdiff"] = fmt.Sprintf("$%06x: %02x vs %02x", a, rams[0][a], rams[1][a])
				break
			}
		}
	}
	b, _ := json.Marshal(o)
	fmt.Println("SNESVC_OUT", string(b))
}

func TestSnesvcReplay(t *testing.T) {
`)
	for idx, cs := range cases {
		src.WriteString(genCPUCase(w, idx, cs))
	}
	src.WriteString("}\n")
	outTxt, _ := runOverlayTest(w, "verif/lemmas", src.String(), "^TestSnesvcReplay$")
	obs := map[int]map[string]interface{}{}
	for _, l := range strings.Split(outTxt, "\n") {
		if i := strings.Index(l, "SNESVC_OUT "); i >= 0 {
			var o map[string]interface{}
			if json.Unmarshal([]byte(l[i+len("SNESVC_OUT "):]), &o) == nil {
				if f, ok := o["idx"].(float64); ok {
					obs[int(f)] = o
				}
			}
		}
	}
	for idx, cs := range cases {
		o := obs[idx]
		rep := map[string]interface{}{"lemma": cs.lemma, "op": fmt.Sprintf("%02X", cs.op), "how": "the lemma function is run natively on a CPU/RAM built from the model (test injected into verif/lemmas with go test -overlay)"}
		if o == nil {
			rep["note"] = "no output from the replay run"
			rep["go_test_output"] = tailStr(outTxt, 1500)
			out[cs.r.Name] = repResult{false, rep}
			continue
		}
		rep["observed"] = o
		ok := judgeCPU(w, cs, o, rep)
		out[cs.r.Name] = repResult{ok, rep}
	}
}

func genCPUCase(w *World, idx int, cs cpuReplayCase) string {
	var b strings.Builder
	model := cs.r.Model
	role := map[string]string{}
	for r, p := range cs.fc.HArgs {
		role[p] = r
	}
	fmt.Fprintf(&b, "\tfunc() {\n")
	// rams
	var mems []string
	for k, v := range model {
		if strings.HasPrefix(k, "mem!") {
			if i := strings.Index(k, "["); i > 0 {
				a, err := strconv.ParseUint(strings.TrimSuffix(k[i+1:], "]"), 0, 64)
				if err == nil && a < 1<<24 {
					mems = append(mems, fmt.Sprintf("ram0[%#x] = %#x", a, v&0xff))
				}
			}
		}
	}
	sort.Strings(mems)
	val := func(prefixes []string, field string) (uint64, bool) {
		for _, pf := range prefixes {
			if v, ok := modelArg(model, pf+field); ok {
				return v, true
			}
		}
		return 0, false
	}
	fmt.Fprintf(&b, "\t\tram0 := new([1 << 24]byte)\n")
	for _, m := range mems {
		fmt.Fprintf(&b, "\t\t%s\n", m)
	}
	rk, _ := val([]string{"cpu."}, "RK")
	pc, _ := val([]string{"cpu."}, "PC")
	fmt.Fprintf(&b, "\t\tram0[%#x] = %#x\n", (rk&0xff)<<16|(pc&0xffff), cs.op)
	nram := 0
	var args []string
	var cpuNames []string
	var ramNames []string
	for _, p := range cs.fn.Params {
		switch role[p.Name()] {
		case "ram", "ram1":
			args = append(args, "ram0")
			ramNames = append(ramNames, "ram0[:]")
		case "ram2":
			nram++
			fmt.Fprintf(&b, "\t\tram%d := new([1 << 24]byte)\n\t\t*ram%d = *ram0\n", nram, nram)
			args = append(args, fmt.Sprintf("ram%d", nram))
			ramNames = append(ramNames, fmt.Sprintf("ram%d[:]", nram))
		case "op":
			args = append(args, fmt.Sprintf("%#x", cs.op))
		case "cpu", "a", "b":
			pt := p.Type().(*types.Pointer).Elem()
			isAlt := strings.Contains(pt.String(), "cpualt")
			ramOf := "ram0"
			if role[p.Name()] == "b" {
				// the alternative interpreter runs on its own copy
				if _, has := cs.fc.HArgs["ram2"]; has {
					ramOf = "ramB"
					fmt.Fprintf(&b, "\t\tramB := new([1 << 24]byte)\n\t\t*ramB = *ram0\n")
				} else {
					ramOf = "ramB"
					fmt.Fprintf(&b, "\t\tramB := new([1 << 24]byte)\n\t\t*ramB = *ram0\n")
					ramNames = append(ramNames, "ramB[:]")
				}
			}
			v := "c" + p.Name()
			if isAlt {
				fmt.Fprintf(&b, "\t\t%s := NewFlatAlt(%s)\n", v, ramOf)
			} else {
				fmt.Fprintf(&b, "\t\t%s := NewFlat65(%s)\n", v, ramOf)
			}
			prefixes := []string{"cpu."}
			if isAlt {
				prefixes = []string{"cpu.", "alt."}
			}
			genFieldSets(&b, v, pt, "", prefixes, val)
			args = append(args, v)
			cpuNames = append(cpuNames, fmt.Sprintf("%q: %s", p.Name(), v))
		default:
			if isScalarType(p.Type()) {
				mv, _ := modelArg(model, p.Name())
				args = append(args, fmt.Sprintf("%#x", mv))
			} else {
				args = append(args, "nil")
			}
		}
	}
	if _, has := cs.fc.HArgs["ram1"]; has {
		// flatboth: the two interpreters own ram0 / ramB
	}
	rs := cs.fn.Signature.Results()
	var lhs, conv []string
	for i := 0; i < rs.Len(); i++ {
		lhs = append(lhs, fmt.Sprintf("r%d", i))
		if isBool(rs.At(i).Type()) {
			conv = append(conv, fmt.Sprintf("func() uint64 { if r%d { return 1 }; return 0 }()", i))
		} else if isScalarType(rs.At(i).Type()) {
			conv = append(conv, fmt.Sprintf("uint64(r%d)", i))
		} else if _, isSt := rs.At(i).Type().Underlying().(*types.Struct); isSt {
			conv = append(conv, fmt.Sprintf("r%d", i))
		} else if isByteSlice(rs.At(i).Type()) {
			conv = append(conv, fmt.Sprintf("fmt.Sprintf(\"hex:%%x\", []byte(r%d))", i))
		} else {
			conv = append(conv, "0")
			lhs[i] = "_"
		}
	}
	cpus := "map[string]interface{}{" + strings.Join(cpuNames, ", ") + "}"
	rams := "[][]byte{" + strings.Join(ramNames, ", ") + "}"
	fmt.Fprintf(&b, "\t\tdefer func() {\n\t\t\tif p := recover(); p != nil {\n\t\t\t\tsnesvcReport(%d, nil, %s, %s, p)\n\t\t\t}\n\t\t}()\n", idx, cpus, rams)
	call := cs.fn.Name() + "(" + strings.Join(args, ", ") + ")"
	allBlank := true
	for _, l := range lhs {
		if l != "_" {
			allBlank = false
		}
	}
	if len(lhs) > 0 && !allBlank {
		fmt.Fprintf(&b, "\t\t%s := %s\n", strings.Join(lhs, ", "), call)
	} else {
		fmt.Fprintf(&b, "\t\t%s\n", call)
	}
	fmt.Fprintf(&b, "\t\tsnesvcReport(%d, []interface{}{%s}, %s, %s, nil)\n", idx, strings.Join(conv, ", "), cpus, rams)
	fmt.Fprintf(&b, "\t}()\n")
	return b.String()
}

// genFieldSets assigns exported scalar fields of a CPU from the model
func genFieldSets(b *strings.Builder, v string, t types.Type, path string, prefixes []string, val func([]string, string) (uint64, bool)) {
	st := t.Underlying().(*types.Struct)
	for i := 0; i < st.NumFields(); i++ {
		f := st.Field(i)
		if !f.Exported() || f.Name() == "Bus" {
			continue
		}
		full := path + f.Name()
		if _, ok := f.Type().Underlying().(*types.Struct); ok {
			genFieldSets(b, v, f.Type(), full+".", prefixes, val)
			continue
		}
		if !isScalarType(f.Type()) {
			continue
		}
		mv, ok := val(prefixes, full)
		if !ok {
			continue
		}
		if isBool(f.Type()) {
			fmt.Fprintf(b, "\t\t%s.%s = %v\n", v, full, mv != 0)
		} else {
			wd, _, _ := bitsOf(f.Type())
			fmt.Fprintf(b, "\t\t%s.%s = %#x\n", v, full, mv&mask(wd))
		}
	}
}

// judgeCPU decides whether the observed run violates the obligation
func judgeCPU(w *World, cs cpuReplayCase, o map[string]interface{}, rep map[string]interface{}) bool {
	_, panicked := o["panic"]
	switch cs.r.Kind {
	case "bounds", "divzero", "nil", "slicebounds", "nopanic", "typeassert", "nilmap", "makeslice":
		rep["required"] = "no runtime panic"
		return panicked
	}
	if panicked {
		rep["required"] = "normal return"
		return true
	}
	m := obClauseRe.FindStringSubmatch(cs.r.Name)
	if m == nil || m[1] != "ensures" {
		return false
	}
	k, _ := strconv.Atoi(m[2])
	if k < 1 || k > len(cs.fc.Ensures) {
		return false
	}
	clause := cs.fc.Ensures[k-1]
	rep["required"] = clause
	if strings.Contains(clause, "ram") && strings.Contains(clause, "all(") {
		_, diff := o["memdiff"]
		return diff
	}
	// evaluate the clause on (model pre-state, observed post-state)
	ok := false
	func() {
		defer func() {
			if rr := recover(); rr != nil {
				rep["clause_eval_error"] = fmt.Sprint(rr)
			}
		}()
		x := NewExec(w)
		pre, post := NewState(), NewState()
		var args []Value
		role := map[string]string{}
		for r, p := range cs.fc.HArgs {
			role[p] = r
		}
		for _, p := range cs.fn.Params {
			switch role[p.Name()] {
			case "cpu", "a", "b":
				pt := p.Type().(*types.Pointer).Elem()
				obj := x.newObj(pt, p.Name())
				isAlt := strings.Contains(pt.String(), "cpualt")
				prefixes := []string{"cpu."}
				if isAlt {
					prefixes = []string{"cpu.", "alt."}
				}
				pre.Heap[obj.ID] = concreteStruct(x, pt, "", func(name string) (uint64, bool) {
					for _, pf := range prefixes {
						if v, ok := modelArg(cs.r.Model, pf+name); ok {
							return v, true
						}
					}
					return 0, false
				})
				om, _ := o[p.Name()].(map[string]interface{})
				post.Heap[obj.ID] = concreteStruct(x, pt, "", func(name string) (uint64, bool) {
					if f, ok := om[name].(float64); ok {
						return uint64(f), true
					}
					return 0, false
				})
				args = append(args, Ptr{Obj: obj})
			case "op":
				args = append(args, Scalar{Const(8, uint64(cs.op))})
			case "ram", "ram1":
				// the initial memory image of the model, for old(ram[...]) only (the post-state has no such object:
				// a clause reading memory after the call is not judged here)
				pt := p.Type().(*types.Pointer).Elem()
				obj := x.newObj(pt, p.Name())
				img := ConstArr(ArrS(BV(64), BV(8)), Const(8, 0))
				for k, v := range cs.r.Model {
					if strings.HasPrefix(k, "mem!") {
						if i := strings.Index(k, "["); i > 0 {
							a, err := strconv.ParseUint(strings.TrimSuffix(k[i+1:], "]"), 0, 64)
							if err == nil && a < 1<<24 {
								img = Store(img, Const(64, a), Const(8, v&0xff))
							}
						}
					}
				}
				rk, _ := modelArg(cs.r.Model, "cpu.RK")
				pc, _ := modelArg(cs.r.Model, "cpu.PC")
				img = Store(img, Const(64, (rk&0xff)<<16|(pc&0xffff)), Const(8, uint64(cs.op)))
				pre.Heap[obj.ID] = ArrayT{T: img, Len: 1 << 24, Elem: types.Typ[types.Uint8]}
				args = append(args, Ptr{Obj: obj})
			default:
				if isScalarType(p.Type()) {
					wd, _, _ := bitsOf(p.Type())
					mv, _ := modelArg(cs.r.Model, p.Name())
					args = append(args, Scalar{Const(wd, mv)})
				} else {
					args = append(args, x.zero(p.Type()))
				}
			}
		}
		var rets []Value
		if rl, okr := o["rets"].([]interface{}); okr {
			rs := cs.fn.Signature.Results()
			for i := 0; i < rs.Len() && i < len(rl); i++ {
				f, _ := rl[i].(float64)
				t := rs.At(i).Type()
				if hs, isS := rl[i].(string); isS && strings.HasPrefix(hs, "hex:") && isByteSlice(t) {
					raw, _ := hex.DecodeString(hs[4:])
					arrT := types.NewArray(types.Typ[types.Uint8], int64(len(raw)))
					obj := x.newObj(arrT, fmt.Sprintf("ret%d", i+1))
					img := ConstArr(ArrS(BV(64), BV(8)), Const(8, 0))
					for j, bt := range raw {
						img = Store(img, Const(64, uint64(j)), Const(8, uint64(bt)))
					}
					post.Heap[obj.ID] = ArrayT{T: img, Len: int64(len(raw)), Elem: types.Typ[types.Uint8]}
					n := Const(64, uint64(len(raw)))
					rets = append(rets, SliceV{Obj: obj, Off: Const(64, 0), Len: n, Cap: n})
					continue
				}
				if sm, isM := rl[i].(map[string]interface{}); isM {
					rets = append(rets, concreteStruct(x, t, "", func(name string) (uint64, bool) {
						if fv, ok := sm[name].(float64); ok {
							return uint64(fv), true
						}
						return 0, false
					}))
					continue
				}
				if isBool(t) {
					rets = append(rets, Scalar{BoolC(f != 0)})
				} else if wd, _, okb := bitsOf(t); okb {
					rets = append(rets, Scalar{Const(wd, uint64(int64(f)))})
				} else {
					rets = append(rets, x.zero(t))
				}
			}
		}
		cx := &verifyCtx{fn: cs.fn, c: cs.fc, args: args, pre: pre}
		e := cx.postEnv(x, post, rets, nil)
		f := e.Formula(clause)
		rep["clause_value_on_observed_state"] = f.Op
		ok = f.IsFalse()
	}()
	return ok
}

func concreteStruct(x *Exec, t types.Type, path string, get func(string) (uint64, bool)) StructV {
	st := t.Underlying().(*types.Struct)
	s := StructV{}
	for i := 0; i < st.NumFields(); i++ {
		f := st.Field(i)
		full := path + f.Name()
		if _, ok := f.Type().Underlying().(*types.Struct); ok && f.Name() != "Bus" {
			s.F = append(s.F, concreteStruct(x, f.Type(), full+".", get))
			continue
		}
		if isScalarType(f.Type()) {
			v, _ := get(full)
			if isBool(f.Type()) {
				s.F = append(s.F, Scalar{BoolC(v != 0)})
			} else {
				wd, _, _ := bitsOf(f.Type())
				s.F = append(s.F, Scalar{Const(wd, v)})
			}
			continue
		}
		if _, ok := f.Type().Underlying().(*types.Map); ok {
			s.F = append(s.F, MapV{})
			continue
		}
		if _, ok := f.Type().Underlying().(*types.Array); ok && f.Name() == "instructions" {
			s.F = append(s.F, ArrayV{})
			continue
		}
		if f.Name() == "Bus" {
			if _, isPtr := f.Type().Underlying().(*types.Pointer); isPtr {
				s.F = append(s.F, Ptr{})
			} else {
				s.F = append(s.F, StructV{})
			}
			continue
		}
		s.F = append(s.F, x.zero(f.Type()))
	}
	return s
}

func isByteSlice(t types.Type) bool {
	sl, ok := t.Underlying().(*types.Slice)
	if !ok {
		return false
	}
	b, ok := sl.Elem().Underlying().(*types.Basic)
	return ok && b.Kind() == types.Uint8
}
