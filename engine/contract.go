package main

// Contract files (//@ comment blocks) and the contract-expression evaluator.

import (
	"fmt"
	"go/ast"
	"go/constant"
	"go/parser"
	"go/token"
	"go/types"
	"os"
	"path/filepath"
	"regexp"
	"sort"
	"strconv"
	"strings"
	"sync"

	"golang.org/x/tools/go/ssa"
)

type LoopC struct {
	Inv      []string
	Dec      string
	Modifies []string
	Finger   string // expected induction/range variable name (structural fingerprint)
	// Names: source names of the loop-carried variables in positional order. A clause written with positional
	// names (phi1, l2phi1, ...) falls back to the source name when the loop no longer has that many loop-carried
	// variables (the loop was restructured): the clause is then still evaluated — and normally fails — instead
	// of leaving the check undecided. A pure rename keeps the positional names valid.
	Names []string
}
type FnContract struct {
	Key         string // "<pkgpath>.<name>"
	Pkg         string
	Name        string
	File        string
	Requires    []string
	Ensures     []string
	Panics      []string // function panics (explicitly) iff the disjunction holds
	HasPanics   bool
	OnPanic     []string
	Assigns     []string
	HasAssigns  bool
	Modular     bool
	Trusted     bool
	Lemma       bool
	Props       []string
	Loops       map[int]*LoopC
	Cases       []string // case split expressions (each an assumption; obligations named @case)
	Pure        []string
	Harness     string            // engine-built input state (e.g. flat-RAM CPU)
	HArgs       map[string]string // role -> parameter name
	Ops         string            // "all" or comma list of opcodes for harnesses that enumerate op
	MayPanic    bool
	ParamNames  []string            // receiver and parameter names at the time the contract was written (clause `params`): a renamed parameter is still found by position
	ModularSym  bool                // modular only at call sites whose string / slice arguments have symbolic lengths
	SiteAsserts map[string][]string // call site -> assertions that must hold when the call is made
	Split       string              // "<expr> <lo>..<hi>": ensures obligations are split by the value of expr
	NoSafety    bool                // implicit runtime-panic obligations are assumed (proved under another property)
}

var posNameRe = regexp.MustCompile(`^(?:l(\d+))?phi(\d+)$`)

var clauseKW = map[string]bool{"requires": true, "ensures": true, "panics": true, "onpanic": true, "assigns": true,
	"modular": true, "trusted": true, "loop": true, "property": true, "case": true, "pure": true, "harness": true, "nosafety": true, "maypanic": true, "split": true, "at": true, "ops": true, "params": true}

func (w *World) loadContracts() {
	var paths []string
	for path := range w.ppkgs {
		if w.isOurs(path) {
			paths = append(paths, path)
		}
	}
	sort.Strings(paths)
	for _, path := range paths {
		pp := w.ppkgs[path]
		for _, f := range pp.GoFiles {
			w.parseContractFile(path, f)
		}
	}
}

func (w *World) parseContractFile(pkgPath, file string) {
	data, err := os.ReadFile(file)
	if err != nil {
		return
	}
	if !strings.Contains(string(data), "//@") && !strings.Contains(string(data), "// @") {
		return
	}
	w.cfiles = append(w.cfiles, file)
	var cur *FnContract
	var lastClause *string
	for ln, line := range strings.Split(string(data), "\n") {
		t := strings.TrimSpace(line)
		if strings.HasPrefix(t, "// @") { // gofmt rewrites //@ inside doc comments
			t = "//@" + t[4:]
		}
		if !strings.HasPrefix(t, "//@") {
			continue
		}
		t = strings.TrimSpace(strings.TrimPrefix(t, "//@"))
		if t == "" {
			continue
		}
		fields := strings.Fields(t)
		kw := fields[0]
		rest := strings.TrimSpace(strings.TrimPrefix(t, kw))
		if kw == "define" {
			// define NAME(p1, p2) body — textual macro, expanded (with parenthesised arguments) before parsing
			op, cp := strings.IndexByte(rest, '('), strings.IndexByte(rest, ')')
			if op <= 0 || cp < op {
				fail("%s:%d: malformed define", file, ln+1)
			}
			m := &macroDef{Name: strings.TrimSpace(rest[:op]), Body: strings.TrimSpace(rest[cp+1:])}
			for _, pn := range strings.Split(rest[op+1:cp], ",") {
				if pn = strings.TrimSpace(pn); pn != "" {
					m.Params = append(m.Params, pn)
				}
			}
			macroMu.Lock()
			macros[m.Name] = m
			macroMu.Unlock()
			lastClause = &m.Body
			continue
		}
		if kw == "func" || kw == "lemma" {
			cur = &FnContract{Pkg: pkgPath, Name: rest, Key: pkgPath + "." + rest, File: file, Loops: map[int]*LoopC{}, Lemma: kw == "lemma"}
			if kw == "lemma" {
				// "lemma Name property Cxx ..."
				fs := strings.Fields(rest)
				cur.Name = fs[0]
				cur.Key = pkgPath + "." + fs[0]
				for i := 1; i < len(fs); i++ {
					if fs[i] != "property" {
						cur.Props = append(cur.Props, fs[i])
					}
				}
			}
			if _, dup := w.contracts[cur.Key]; dup {
				fail("%s:%d: duplicate contract for %s", file, ln+1, cur.Key)
			}
			w.contracts[cur.Key] = cur
			lastClause = nil
			continue
		}
		if cur == nil && (clauseKW[kw] || lastClause == nil) {
			fail("%s:%d: clause outside a func block: %s", file, ln+1, t)
		}
		if !clauseKW[kw] {
			// continuation of the previous clause
			if lastClause == nil {
				fail("%s:%d: unknown clause %q", file, ln+1, kw)
			}
			*lastClause += " " + t
			continue
		}
		switch kw {
		case "requires":
			cur.Requires = append(cur.Requires, rest)
			lastClause = &cur.Requires[len(cur.Requires)-1]
		case "ensures":
			cur.Ensures = append(cur.Ensures, rest)
			lastClause = &cur.Ensures[len(cur.Ensures)-1]
		case "panics":
			cur.HasPanics = true
			cur.Panics = append(cur.Panics, rest)
			lastClause = &cur.Panics[len(cur.Panics)-1]
		case "onpanic":
			cur.OnPanic = append(cur.OnPanic, rest)
			lastClause = &cur.OnPanic[len(cur.OnPanic)-1]
		case "case":
			cur.Cases = append(cur.Cases, rest)
			lastClause = &cur.Cases[len(cur.Cases)-1]
		case "assigns":
			cur.HasAssigns = true
			if rest != "" && rest != "nothing" {
				cur.Assigns = append(cur.Assigns, splitTop(rest, ',')...)
			}
			lastClause = nil
		case "pure":
			cur.Pure = append(cur.Pure, strings.Fields(rest)...)
			lastClause = nil
		case "harness":
			fs := strings.Fields(rest)
			cur.Harness = fs[0]
			cur.HArgs = map[string]string{}
			for _, kv := range fs[1:] {
				if i := strings.IndexByte(kv, '='); i > 0 {
					cur.HArgs[kv[:i]] = kv[i+1:]
				}
			}
			lastClause = nil
		case "params":
			cur.ParamNames = strings.Fields(strings.ReplaceAll(rest, ",", " "))
			lastClause = nil
		case "modular":
			cur.Modular = true
			cur.ModularSym = rest == "symbolic"
			lastClause = nil
		case "nosafety":
			cur.NoSafety = true
			lastClause = nil
		case "maypanic":
			cur.MayPanic = true
			lastClause = nil
		case "split":
			cur.Split = rest
			lastClause = nil
		case "ops":
			cur.Ops = rest
			lastClause = nil
		case "at":
			// at <site> assert <expr>
			if len(fields) < 4 || fields[2] != "assert" {
				fail("%s:%d: malformed 'at' clause", file, ln+1)
			}
			if cur.SiteAsserts == nil {
				cur.SiteAsserts = map[string][]string{}
			}
			body := strings.TrimSpace(rest[strings.Index(rest, " assert ")+8:])
			cur.SiteAsserts[fields[1]] = append(cur.SiteAsserts[fields[1]], body)
			lastClause = &cur.SiteAsserts[fields[1]][len(cur.SiteAsserts[fields[1]])-1]
		case "trusted":
			cur.Trusted = true
			cur.Modular = true
			lastClause = nil
		case "property":
			cur.Props = append(cur.Props, strings.Fields(rest)...)
			lastClause = nil
		case "loop":
			if len(fields) < 3 {
				fail("%s:%d: malformed loop clause", file, ln+1)
			}
			n, err := strconv.Atoi(fields[1])
			if err != nil {
				fail("%s:%d: loop ordinal: %v", file, ln+1, err)
			}
			lc := cur.Loops[n]
			if lc == nil {
				lc = &LoopC{}
				cur.Loops[n] = lc
			}
			body := strings.TrimSpace(strings.TrimPrefix(strings.TrimSpace(strings.TrimPrefix(rest, fields[1])), fields[2]))
			switch fields[2] {
			case "invariant":
				lc.Inv = append(lc.Inv, body)
				lastClause = &lc.Inv[len(lc.Inv)-1]
			case "decreases":
				lc.Dec = body
				lastClause = &lc.Dec
			case "modifies":
				lc.Modifies = append(lc.Modifies, splitTop(body, ',')...)
				lastClause = nil
			case "var":
				lc.Finger = body
				lastClause = nil
			case "names":
				lc.Names = strings.Fields(strings.ReplaceAll(body, ",", " "))
				lastClause = nil
			default:
				fail("%s:%d: unknown loop clause %q", file, ln+1, fields[2])
			}
		}
	}
	for _, c := range w.contracts {
		for _, p := range c.Pure {
			w.pureMethods[p] = true
		}
	}
}

func splitTop(s string, sep byte) []string {
	depth := 0
	var parts []string
	last := 0
	inStr := false
	for i := 0; i < len(s); i++ {
		if inStr {
			if s[i] == '\\' {
				i++
			} else if s[i] == '"' {
				inStr = false
			}
			continue
		}
		switch s[i] {
		case '"':
			inStr = true
		case '(', '[', '{':
			depth++
		case ')', ']', '}':
			depth--
		default:
			if s[i] == sep && depth == 0 {
				parts = append(parts, strings.TrimSpace(s[last:i]))
				last = i + 1
			}
		}
	}
	parts = append(parts, strings.TrimSpace(s[last:]))
	return parts
}

// fnKey: the key under which a function's contract is looked up
func fnKey(fn *ssa.Function) string {
	if fn.Pkg == nil && fn.Object() == nil {
		return ""
	}
	var pkg string
	if fn.Pkg != nil {
		pkg = fn.Pkg.Pkg.Path()
	} else {
		pkg = fn.Object().Pkg().Path()
	}
	name := fn.Name()
	if fn.Signature.Recv() != nil {
		rt := fn.Signature.Recv().Type()
		if p, ok := rt.(*types.Pointer); ok {
			name = "(*" + p.Elem().(*types.Named).Obj().Name() + ")." + fn.Name()
		} else if n, ok := rt.(*types.Named); ok {
			name = "(" + n.Obj().Name() + ")." + fn.Name()
		}
	}
	return pkg + "." + name
}

func (w *World) contractFor(fn *ssa.Function) *FnContract {
	k := fnKey(fn)
	if k == "" {
		return nil
	}
	return w.contracts[k]
}

// resolveFn finds the ssa function a contract names
func (w *World) resolveFn(c *FnContract) *ssa.Function {
	p := w.pkgs[c.Pkg]
	if p == nil {
		return nil
	}
	name := c.Name
	if strings.HasPrefix(name, "(") {
		i := strings.Index(name, ").")
		if i < 0 {
			return nil
		}
		tn := strings.TrimPrefix(name[1:i], "*")
		mn := name[i+2:]
		tm := p.Type(tn)
		if tm == nil {
			return nil
		}
		for _, tt := range []types.Type{tm.Type(), types.NewPointer(tm.Type())} {
			ms := w.prog.MethodSets.MethodSet(tt)
			for k := 0; k < ms.Len(); k++ {
				if ms.At(k).Obj().Name() == mn {
					f := w.prog.MethodValue(ms.At(k))
					if f != nil && fnKey(f) == c.Key && f.Synthetic == "" {
						return f
					}
				}
			}
		}
		return nil
	}
	return p.Func(name)
}

// ---- macros ----
type macroDef struct {
	Name   string
	Params []string
	Body   string
}

var macros = map[string]*macroDef{}
var macroMu sync.Mutex

func isIdentByte(c byte) bool {
	return c == '_' || (c >= 'a' && c <= 'z') || (c >= 'A' && c <= 'Z') || (c >= '0' && c <= '9')
}

// replaceIdent replaces whole-identifier occurrences of name (not preceded by '.') outside string literals
func replaceIdent(s, name, by string) string {
	var out strings.Builder
	inStr := false
	for i := 0; i < len(s); {
		if s[i] == '"' {
			inStr = !inStr
		}
		if !inStr && strings.HasPrefix(s[i:], name) && (i == 0 || (!isIdentByte(s[i-1]) && s[i-1] != '.')) && (i+len(name) == len(s) || !isIdentByte(s[i+len(name)])) {
			out.WriteString(by)
			i += len(name)
			continue
		}
		out.WriteByte(s[i])
		i++
	}
	return out.String()
}

func expandMacros(s string) string {
	macroMu.Lock()
	defer macroMu.Unlock()
	for depth := 0; depth < 16; depth++ {
		changed := false
		for _, m := range macros {
			for {
				i := findCall(s, m.Name)
				if i < 0 {
					break
				}
				// matching parenthesis
				j, d := i+len(m.Name), 0
				for ; j < len(s); j++ {
					if s[j] == '(' {
						d++
					} else if s[j] == ')' {
						d--
						if d == 0 {
							break
						}
					}
				}
				if j >= len(s) {
					fail("contract: unbalanced macro call %s in %q", m.Name, s)
				}
				args := splitTop(s[i+len(m.Name)+1:j], ',')
				if len(m.Params) == 0 {
					args = nil
				}
				if len(args) != len(m.Params) {
					fail("contract: macro %s expects %d arguments in %q", m.Name, len(m.Params), s)
				}
				body := m.Body
				// two-phase substitution so that arguments mentioning parameter names are not re-substituted
				for k, pn := range m.Params {
					body = replaceIdent(body, pn, fmt.Sprintf("\x00%d\x00", k))
				}
				for k := range m.Params {
					body = strings.ReplaceAll(body, fmt.Sprintf("\x00%d\x00", k), "("+strings.TrimSpace(args[k])+")")
				}
				s = s[:i] + "(" + body + ")" + s[j+1:]
				changed = true
			}
		}
		if !changed {
			return s
		}
	}
	fail("contract: macro expansion does not terminate in %q", s)
	return s
}

// findCall: index of "NAME(" as a whole identifier
func findCall(s, name string) int {
	for from := 0; ; {
		i := strings.Index(s[from:], name+"(")
		if i < 0 {
			return -1
		}
		i += from
		if i == 0 || (!isIdentByte(s[i-1]) && s[i-1] != '.') {
			return i
		}
		from = i + 1
	}
}

// ---- implication sugar: A ==> B  becomes imp(A, B) ----
func rewriteImplies(s string) string {
	s = expandMacros(s)
	parts := splitTop(s, ',')
	for i, p := range parts {
		parts[i] = rewriteImpliesOne(p)
	}
	return strings.Join(parts, ", ")
}

func rewriteImpliesOne(s string) string {
	// split on top-level ==>
	depth := 0
	var segs []string
	last := 0
	inStr := false
	for i := 0; i+2 < len(s); i++ {
		if s[i] == '"' {
			inStr = !inStr
		}
		if inStr {
			continue
		}
		switch s[i] {
		case '(', '[', '{':
			depth++
		case ')', ']', '}':
			depth--
		}
		if depth == 0 && s[i:i+3] == "==>" {
			segs = append(segs, s[last:i])
			last = i + 3
			i += 2
		}
	}
	segs = append(segs, s[last:])
	for i, g := range segs {
		segs[i] = rewriteGroups(g)
	}
	r := strings.TrimSpace(segs[len(segs)-1])
	for i := len(segs) - 2; i >= 0; i-- {
		r = "imp(" + strings.TrimSpace(segs[i]) + ", " + r + ")"
	}
	return r
}

func rewriteGroups(s string) string {
	var out strings.Builder
	inStr := false
	for i := 0; i < len(s); i++ {
		c := s[i]
		if c == '"' {
			inStr = !inStr
		}
		if inStr {
			out.WriteByte(c)
			continue
		}
		if c == '(' || c == '[' {
			closeC := byte(')')
			if c == '[' {
				closeC = ']'
			}
			depth := 1
			j := i + 1
			inS := false
			for ; j < len(s) && depth > 0; j++ {
				if s[j] == '"' {
					inS = !inS
				}
				if inS {
					continue
				}
				if s[j] == c {
					depth++
				} else if s[j] == closeC {
					depth--
				}
			}
			out.WriteByte(c)
			out.WriteString(rewriteImplies(s[i+1 : j-1]))
			out.WriteByte(closeC)
			i = j - 1
			continue
		}
		out.WriteByte(c)
	}
	return out.String()
}

// ---- evaluation ----

type TV struct {
	V Value
	T types.Type // nil: untyped constant
}

type CEnv struct {
	x         *Exec
	pre       *State
	post      *State
	pkg       string // package path in whose scope names resolve
	names     func(name string, old bool) (Value, types.Type, bool)
	bound     map[string]TV
	useOld    bool
	fn        *ssa.Function
	extraLocs []Ptr
	frame     *Frame
}

func (e *CEnv) state() *State {
	if e.useOld {
		return e.pre
	}
	return e.post
}

func (e *CEnv) Formula(src string) *Term {
	s := rewriteImplies(src)
	ex, err := parser.ParseExpr(s)
	if err != nil {
		fail("contract parse error in %q: %v", src, err)
	}
	tv := e.eval(ex)
	sc, ok := tv.V.(Scalar)
	if !ok || sc.T.S != BoolS {
		fail("contract clause is not boolean: %q", src)
	}
	return sc.T
}

func (e *CEnv) Term(src string) (*Term, types.Type) {
	s := rewriteImplies(src)
	ex, err := parser.ParseExpr(s)
	if err != nil {
		fail("contract parse error in %q: %v", src, err)
	}
	tv := e.eval(ex)
	return e.x.leafTerm(tv.V), tv.T
}

var basicByName = map[string]types.Type{
	"bool": types.Typ[types.Bool], "uint8": types.Typ[types.Uint8], "byte": types.Typ[types.Uint8], "uint16": types.Typ[types.Uint16],
	"uint32": types.Typ[types.Uint32], "uint64": types.Typ[types.Uint64], "uint": types.Typ[types.Uint], "int8": types.Typ[types.Int8],
	"int16": types.Typ[types.Int16], "int32": types.Typ[types.Int32], "int64": types.Typ[types.Int64], "int": types.Typ[types.Int],
	"string": types.Typ[types.String],
}

func (e *CEnv) lookupType(ex ast.Expr) types.Type {
	switch n := ex.(type) {
	case *ast.Ident:
		if t, ok := basicByName[n.Name]; ok {
			return t
		}
		if pp := e.x.w.ppkgs[e.pkg]; pp != nil && pp.Types != nil {
			if o := pp.Types.Scope().Lookup(n.Name); o != nil {
				if tn, ok := o.(*types.TypeName); ok {
					return tn.Type()
				}
			}
		}
	case *ast.SelectorExpr:
		if id, ok := n.X.(*ast.Ident); ok {
			if p := e.findPkg(id.Name); p != nil {
				if o := p.Scope().Lookup(n.Sel.Name); o != nil {
					if tn, ok := o.(*types.TypeName); ok {
						return tn.Type()
					}
				}
			}
		}
	case *ast.ParenExpr:
		return e.lookupType(n.X)
	}
	return nil
}

func (e *CEnv) lookupTypeExpr(ex ast.Expr) types.Type {
	if st, ok := ex.(*ast.StarExpr); ok {
		if t := e.lookupType(st.X); t != nil {
			return types.NewPointer(t)
		}
		return nil
	}
	return e.lookupType(ex)
}

func (e *CEnv) findPkg(name string) *types.Package {
	// imports of the contract's package first, then any loaded package of ours with that name
	if pp := e.x.w.ppkgs[e.pkg]; pp != nil {
		for _, ip := range pp.Imports {
			if ip.Types != nil && ip.Types.Name() == name {
				return ip.Types
			}
		}
	}
	var cands []string
	for path, pp := range e.x.w.ppkgs {
		if pp.Types != nil && pp.Types.Name() == name && e.x.w.isOurs(path) {
			cands = append(cands, path)
		}
	}
	sort.Strings(cands)
	if len(cands) > 0 {
		return e.x.w.ppkgs[cands[0]].Types
	}
	return nil
}

func (e *CEnv) constTV(c constant.Value, t types.Type) TV {
	if b, ok := t.Underlying().(*types.Basic); ok && b.Info()&types.IsUntyped != 0 {
		t = nil
	}
	switch c.Kind() {
	case constant.Bool:
		return TV{Scalar{BoolC(constant.BoolVal(c))}, types.Typ[types.Bool]}
	case constant.String:
		return TV{StrV{StrLit(constant.StringVal(c))}, types.Typ[types.String]}
	case constant.Int:
		w := 64
		if t != nil {
			w, _, _ = bitsOf(t)
		}
		if i, ok := constant.Int64Val(c); ok {
			return TV{Scalar{Const(w, uint64(i))}, t}
		}
		u, _ := constant.Uint64Val(c)
		return TV{Scalar{Const(w, u)}, t}
	}
	fail("contract: constant kind not supported")
	return TV{}
}

func (e *CEnv) pkgObject(p *types.Package, name string) (TV, bool) {
	o := p.Scope().Lookup(name)
	if o == nil {
		return TV{}, false
	}
	switch ov := o.(type) {
	case *types.Const:
		return e.constTV(ov.Val(), ov.Type()), true
	case *types.Var:
		sp := e.x.w.prog.Package(p)
		if sp == nil {
			return TV{}, false
		}
		g, ok := sp.Members[name].(*ssa.Global)
		if !ok {
			return TV{}, false
		}
		v := e.x.load(e.state(), Ptr{Obj: e.x.w.globalObj(g)})
		return TV{v, ov.Type()}, true
	}
	return TV{}, false
}

func (e *CEnv) adapt(a, b TV) (TV, TV) {
	// untyped constants take the other operand's type
	as, aok := a.V.(Scalar)
	bs, bok := b.V.(Scalar)
	if !aok || !bok || as.T.S.Kind != 1 || bs.T.S.Kind != 1 {
		return a, b
	}
	if a.T == nil && b.T != nil {
		w, _, _ := bitsOf(b.T)
		return TV{Scalar{resize(as.T, w)}, b.T}, b
	}
	if b.T == nil && a.T != nil {
		w, _, _ := bitsOf(a.T)
		return a, TV{Scalar{resize(bs.T, w)}, a.T}
	}
	if as.T.S.W != bs.T.S.W {
		fail("contract: operand widths differ (%d vs %d); add a conversion", as.T.S.W, bs.T.S.W)
	}
	return a, b
}

func resize(t *Term, w int) *Term {
	if t.S.W == w {
		return t
	}
	if t.S.W > w {
		return Extract(w-1, 0, t)
	}
	return SExt(t, w)
}

func (e *CEnv) deref(tv TV) TV {
	if p, ok := tv.V.(Ptr); ok {
		if pt, ok2 := tv.T.Underlying().(*types.Pointer); ok2 {
			if p.Obj == nil {
				fail("contract: nil pointer dereference")
			}
			return TV{e.x.load(e.state(), p), pt.Elem()}
		}
	}
	return tv
}

func signedT(t types.Type) bool {
	if t == nil {
		return true
	}
	_, s, _ := bitsOf(t)
	return s
}

func (e *CEnv) eval(ex ast.Expr) TV {
	x := e.x
	switch n := ex.(type) {
	case *ast.ParenExpr:
		return e.eval(n.X)
	case *ast.BasicLit:
		switch n.Kind {
		case token.INT:
			v, err := strconv.ParseUint(strings.ReplaceAll(n.Value, "_", ""), 0, 64)
			if err != nil {
				fail("contract: bad literal %s", n.Value)
			}
			return TV{Scalar{Const(64, v)}, nil}
		case token.CHAR:
			r, _, _, err := strconv.UnquoteChar(n.Value[1:len(n.Value)-1], '\'')
			if err != nil {
				fail("contract: bad char literal %s", n.Value)
			}
			return TV{Scalar{Const(64, uint64(r))}, nil}
		case token.STRING:
			s, _ := strconv.Unquote(n.Value)
			return TV{StrV{StrLit(s)}, types.Typ[types.String]}
		}
	case *ast.Ident:
		switch n.Name {
		case "nil":
			return TV{RefV{Const(32, 0)}, nil}
		case "true":
			return TV{Scalar{True()}, types.Typ[types.Bool]}
		case "false":
			return TV{Scalar{False()}, types.Typ[types.Bool]}
		}
		if tv, ok := e.bound[n.Name]; ok {
			return tv
		}
		if e.names != nil {
			// address-taken local: the value currently stored in it (a debug binding of the same name may be stale)
			if v, t, ok := e.names("&"+n.Name, e.useOld); ok && !e.useOld {
				if p, isP := v.(Ptr); isP && p.Obj != nil {
					if pt, isPT := t.Underlying().(*types.Pointer); isPT {
						if _, live := e.state().Heap[p.Obj.ID]; live {
							return TV{x.load(e.state(), p), pt.Elem()}
						}
					}
				}
			}
			if v, t, ok := e.names(n.Name, e.useOld); ok {
				return TV{v, t}
			}
		}
		if pp := x.w.ppkgs[e.pkg]; pp != nil && pp.Types != nil {
			if tv, ok := e.pkgObject(pp.Types, n.Name); ok {
				return tv
			}
		}
		// positional loop variable that no longer exists: fall back to the source name recorded for it
		if m := posNameRe.FindStringSubmatch(n.Name); m != nil && e.names != nil && x.cur != nil {
			k, _ := strconv.Atoi(m[2])
			try := func(lc *LoopC) (TV, bool) {
				if lc != nil && k >= 1 && k <= len(lc.Names) {
					if v, t, ok := e.names(lc.Names[k-1], e.useOld); ok {
						return TV{v, t}, true
					}
				}
				return TV{}, false
			}
			if m[1] != "" {
				ln, _ := strconv.Atoi(m[1])
				if tv, ok := try(x.cur.c.Loops[ln]); ok {
					return tv
				}
			} else {
				for _, lc := range x.cur.c.Loops {
					if tv, ok := try(lc); ok {
						return tv
					}
				}
			}
		}
		fail("contract: unknown identifier %q", n.Name)
	case *ast.SelectorExpr:
		if id, ok := n.X.(*ast.Ident); ok {
			_, isBound := e.bound[id.Name]
			isName := false
			if e.names != nil {
				_, _, isName = e.names(id.Name, e.useOld)
			}
			if !isBound && !isName {
				if p := e.findPkg(id.Name); p != nil {
					if tv, ok := e.pkgObject(p, n.Sel.Name); ok {
						return tv
					}
					fail("contract: %s.%s not found", id.Name, n.Sel.Name)
				}
			}
		}
		base := e.deref(e.eval(n.X))
		sv, ok := base.V.(StructV)
		if !ok {
			fail("contract: selector .%s on %T", n.Sel.Name, base.V)
		}
		fi, ft := findField(base.T, n.Sel.Name)
		if fi == nil {
			fail("contract: no field %s in %s", n.Sel.Name, base.T)
		}
		v := Value(sv)
		for _, k := range fi {
			v = v.(StructV).F[k]
		}
		return TV{v, ft}
	case *ast.StarExpr:
		return e.deref(e.eval(n.X))
	case *ast.TypeAssertExpr:
		a := e.eval(n.X)
		t := e.lookupTypeExpr(n.Type)
		iv, ok := a.V.(IfaceV)
		if !ok || iv.Dyn == nil || t == nil || !types.Identical(iv.Dyn, t) {
			fail("contract: type assertion to %v on a value of a different dynamic type", n.Type)
		}
		return TV{iv.V, t}
	case *ast.IndexExpr:
		base := e.eval(n.X)
		idx := e.eval(n.Index)
		return e.index(base, idx)
	case *ast.UnaryExpr:
		a := e.eval(n.X)
		switch n.Op {
		case token.NOT:
			return TV{Scalar{Not(a.V.(Scalar).T)}, a.T}
		case token.SUB:
			return TV{Scalar{BvNeg(a.V.(Scalar).T)}, a.T}
		case token.XOR:
			return TV{Scalar{BvNot(a.V.(Scalar).T)}, a.T}
		case token.AND:
			return a
		}
	case *ast.BinaryExpr:
		a := e.eval(n.X)
		b := e.eval(n.Y)
		switch n.Op {
		case token.LAND:
			return TV{Scalar{And(a.V.(Scalar).T, b.V.(Scalar).T)}, types.Typ[types.Bool]}
		case token.LOR:
			return TV{Scalar{Or(a.V.(Scalar).T, b.V.(Scalar).T)}, types.Typ[types.Bool]}
		case token.EQL, token.NEQ:
			a, b = e.adapt(a, b)
			var eq *Term
			_, aref := a.V.(RefV)
			_, bref := b.V.(RefV)
			switch {
			case aref && !bref:
				eq = e.eqRef(b.V, a.V.(RefV))
			case bref:
				eq = e.eqRef(a.V, b.V.(RefV))
			default:
				if _, isS := a.V.(StructV); isS {
					// records are compared by content: slice-typed fields by length and elements
					eq = x.equal(x.seqify(e.state(), a.V), x.seqify(e.state(), b.V))
				} else {
					eq = x.equal(a.V, b.V)
				}
			}
			if n.Op == token.NEQ {
				eq = Not(eq)
			}
			return TV{Scalar{eq}, types.Typ[types.Bool]}
		}
		a, b = e.adapt(a, b)
		at, ok1 := a.V.(Scalar)
		bt, ok2 := b.V.(Scalar)
		if !ok1 || !ok2 {
			fail("contract: operator %s on %T, %T", n.Op, a.V, b.V)
		}
		rt := a.T
		if rt == nil {
			rt = b.T
		}
		sg := signedT(rt)
		switch n.Op {
		case token.LSS, token.LEQ, token.GTR, token.GEQ:
			return TV{Scalar{cmpTerm(n.Op, sg, at.T, bt.T)}, types.Typ[types.Bool]}
		case token.ADD:
			return TV{Scalar{bin("bvadd", at.T, bt.T)}, rt}
		case token.SUB:
			return TV{Scalar{bin("bvsub", at.T, bt.T)}, rt}
		case token.MUL:
			return TV{Scalar{bin("bvmul", at.T, bt.T)}, rt}
		case token.QUO:
			if sg {
				return TV{Scalar{bin("bvsdiv", at.T, bt.T)}, rt}
			}
			return TV{Scalar{bin("bvudiv", at.T, bt.T)}, rt}
		case token.REM:
			if sg {
				return TV{Scalar{bin("bvsrem", at.T, bt.T)}, rt}
			}
			return TV{Scalar{bin("bvurem", at.T, bt.T)}, rt}
		case token.AND:
			return TV{Scalar{bin("bvand", at.T, bt.T)}, rt}
		case token.OR:
			return TV{Scalar{bin("bvor", at.T, bt.T)}, rt}
		case token.XOR:
			return TV{Scalar{bin("bvxor", at.T, bt.T)}, rt}
		case token.AND_NOT:
			return TV{Scalar{bin("bvand", at.T, BvNot(bt.T))}, rt}
		case token.SHL, token.SHR:
			// shifts: result has the left operand's type (adapt already equalised widths)
			return TV{Scalar{shiftTerm(n.Op == token.SHL, signedT(a.T), at.T, bt.T, nil)}, a.T}
		}
	case *ast.CallExpr:
		return e.call(n)
	}
	fail("contract: unsupported expression %T", ex)
	return TV{}
}

func (e *CEnv) eqRef(v Value, r RefV) *Term {
	switch vv := v.(type) {
	case SliceV:
		if r.T.IsConst() && r.T.Val == 0 {
			return sliceNil(vv)
		}
	case MapV:
		if r.T.IsConst() && r.T.Val == 0 {
			return BoolC(vv.Obj == nil)
		}
	case Ptr:
		if r.T.IsConst() && r.T.Val == 0 {
			return BoolC(vv.Obj == nil)
		}
	}
	return Eq(e.x.refOf(v), r.T)
}

// findField resolves a (possibly promoted) field; returns the index path
func findField(t types.Type, name string) ([]int, types.Type) {
	if p, ok := t.Underlying().(*types.Pointer); ok {
		t = p.Elem()
	}
	st, ok := t.Underlying().(*types.Struct)
	if !ok {
		return nil, nil
	}
	for i := 0; i < st.NumFields(); i++ {
		if st.Field(i).Name() == name {
			return []int{i}, st.Field(i).Type()
		}
	}
	for i := 0; i < st.NumFields(); i++ {
		if st.Field(i).Embedded() {
			if p, ft := findField(st.Field(i).Type(), name); p != nil {
				return append([]int{i}, p...), ft
			}
		}
	}
	return nil, nil
}

func (e *CEnv) index(base, idx TV) TV {
	x := e.x
	base = e.deref(base)
	toI := func() *Term {
		it := idx.V.(Scalar).T
		if it.S.W < 64 {
			if idx.T != nil && signedT(idx.T) {
				return SExt(it, 64)
			}
			return ZExt(it, 64)
		}
		return it
	}
	switch b := base.V.(type) {
	case ArrayT:
		return TV{x.leafValue(Select(b.T, toI()), b.Elem), b.Elem}
	case ArrayS:
		return TV{x.liftSelect(b.L, toI(), b.Elem), b.Elem}
	case ArrayV:
		et := base.T.Underlying().(*types.Array).Elem()
		return TV{x.getPath(b, []PathElem{{Field: -1, Idx: toI()}}), et}
	case SliceV:
		et := base.T.Underlying().(*types.Slice).Elem()
		if b.Obj == nil {
			return TV{x.zero(et), et}
		}
		arr := x.getPath(x.heapGet(e.state(), b.Obj), b.Base)
		return TV{x.getPath(arr, []PathElem{{Field: -1, Idx: bin("bvadd", b.Off, toI())}}), et}
	case SeqV:
		return TV{x.leafValue(Select(b.Data, toI()), b.Elem), b.Elem}
	case MapV:
		mt := base.T.Underlying().(*types.Map)
		if b.Obj == nil {
			return TV{x.zero(mt.Elem()), mt.Elem()}
		}
		m := x.heapGet(e.state(), b.Obj).(MapT)
		k := x.leafTerm(e.coerceKey(idx, mt.Key()).V)
		// NOTE: the stored value irrespective of presence (not Go's zero value for an absent key): guard with has()
		v := x.liftSelect(m.Val, k, mt.Elem())
		return TV{v, mt.Elem()}
	case StrV:
		return TV{Scalar{x.strByte(b, toI())}, types.Typ[types.Uint8]}
	}
	fail("contract: index on %T", base.V)
	return TV{}
}

func (e *CEnv) coerceKey(k TV, kt types.Type) TV {
	if s, ok := k.V.(Scalar); ok && k.T == nil {
		w, _, _ := bitsOf(kt)
		return TV{Scalar{resize(s.T, w)}, kt}
	}
	return k
}

func (e *CEnv) call(n *ast.CallExpr) TV {
	x := e.x
	// conversions
	if t := e.lookupType(n.Fun); t != nil && len(n.Args) == 1 {
		a := e.eval(n.Args[0])
		if s, ok := a.V.(Scalar); ok && s.T.S.Kind == 1 {
			tw, _, ok2 := bitsOf(t)
			if !ok2 {
				fail("contract: conversion to %s", t)
			}
			if a.T == nil {
				return TV{Scalar{resize(s.T, tw)}, t}
			}
			return TV{x.convert(e.state(), a.V, a.T, t), t}
		}
		return TV{a.V, t}
	}
	if id, ok := n.Fun.(*ast.Ident); ok {
		switch id.Name {
		case "old":
			save := e.useOld
			e.useOld = true
			v := e.eval(n.Args[0])
			e.useOld = save
			return v
		case "ite":
			c := e.eval(n.Args[0]).V.(Scalar).T
			a, b := e.adapt(e.eval(n.Args[1]), e.eval(n.Args[2]))
			t := a.T
			if t == nil {
				t = b.T
			}
			_, aref := a.V.(RefV)
			_, bref := b.V.(RefV)
			if aref || bref {
				return TV{RefV{Ite(c, x.refOf(a.V), x.refOf(b.V))}, t}
			}
			return TV{x.mergeV(c, a.V, b.V), t}
		case "imp":
			a := e.eval(n.Args[0]).V.(Scalar).T
			if a.IsFalse() {
				return TV{Scalar{True()}, types.Typ[types.Bool]}
			}
			// a consequent that cannot be evaluated in this case (e.g. it inspects a result of another shape)
			// is an unknown proposition: the implication is then provable only if the antecedent is refutable
			var b *Term
			func() {
				defer func() {
					if r := recover(); r != nil {
						if ee, ok := r.(engineErr); ok && !strings.Contains(ee.msg, "unknown identifier") && !strings.Contains(ee.msg, "macro") {
							b = x.freshVar("unevaluable", BoolS)
							return
						}
						panic(r)
					}
				}()
				b = e.eval(n.Args[1]).V.(Scalar).T
			}()
			return TV{Scalar{Implies(a, b)}, types.Typ[types.Bool]}
		case "all", "any":
			name := n.Args[0].(*ast.Ident).Name
			t := e.lookupType(n.Args[1])
			if t == nil {
				fail("contract: unknown type in quantifier")
			}
			s, ok := leafSort(t)
			if !ok {
				fail("contract: quantifier over %s", t)
			}
			bv := Bound(fmt.Sprintf("%s_b%d", name, x.nextFresh()), s)
			saved, had := e.bound[name]
			e.bound[name] = TV{x.leafValue(bv, t), t}
			body := e.eval(n.Args[2]).V.(Scalar).T
			if had {
				e.bound[name] = saved
			} else {
				delete(e.bound, name)
			}
			if id.Name == "all" {
				return TV{Scalar{Forall(bv, body)}, types.Typ[types.Bool]}
			}
			return TV{Scalar{Exists(bv, body)}, types.Typ[types.Bool]}
		case "len", "cap":
			a := e.deref(e.eval(n.Args[0]))
			switch v := a.V.(type) {
			case SliceV:
				if id.Name == "cap" {
					return TV{Scalar{v.Cap}, types.Typ[types.Int]}
				}
				return TV{Scalar{v.Len}, types.Typ[types.Int]}
			case SeqV:
				return TV{Scalar{v.Len}, types.Typ[types.Int]}
			case StrV:
				return TV{Scalar{x.strLen(v)}, types.Typ[types.Int]}
			case ArrayV:
				return TV{Scalar{Const(64, uint64(len(v.E)))}, types.Typ[types.Int]}
			case ArrayT:
				return TV{Scalar{Const(64, uint64(v.Len))}, types.Typ[types.Int]}
			}
			fail("contract: len of %T", a.V)
		case "builderlen":
			// builderlen(s): bytes held by a strings.Builder (modelled as a counter)
			var bp Ptr
			switch id0 := n.Args[0].(type) {
			case *ast.Ident:
				bp = e.loc(id0)
			default:
				bp = e.eval(n.Args[0]).V.(Ptr)
			}
			return TV{Scalar{x.builderLen(e.state(), bp)}, types.Typ[types.Int]}
		case "has":
			m := e.deref(e.eval(n.Args[0]))
			mv, ok := m.V.(MapV)
			if !ok {
				fail("contract: has() on %T", m.V)
			}
			if mv.Obj == nil {
				return TV{Scalar{False()}, types.Typ[types.Bool]}
			}
			mt := m.T.Underlying().(*types.Map)
			k := x.leafTerm(e.coerceKey(e.eval(n.Args[1]), mt.Key()).V)
			return TV{Scalar{Select(x.heapGet(e.state(), mv.Obj).(MapT).Has, k)}, types.Typ[types.Bool]}
		case "loopcount":
			// loopcount(N): the number of completed iterations of loop N, read off its counting variable: the first
			// loop-carried variable of the header that starts at a constant c and is incremented by one on every back
			// edge (the index of an index loop: c = 0; the hidden index of a range loop: c = -1); the value is
			// variable - c. Form-independent: the same clause fits `for i := 0; i < n; i++` and `for i := range`.
			ord, _ := strconv.Atoi(n.Args[0].(*ast.BasicLit).Value)
			if x.cur == nil || e.frame == nil || ord < 1 || ord > len(x.cur.headers) {
				fail("contract: loopcount(%d) outside a function with such a loop", ord)
			}
			hdr := x.cur.headers[ord-1]
			for _, ins := range hdr.Instrs {
				phi, ok := ins.(*ssa.Phi)
				if !ok {
					break
				}
				var init *ssa.Const
				step := false
				for _, ed := range phi.Edges {
					if c, isC := ed.(*ssa.Const); isC && c.Value != nil {
						init = c
						continue
					}
					if bo, isB := ed.(*ssa.BinOp); isB && bo.Op == token.ADD && bo.X == ssa.Value(phi) {
						if c1, isC := bo.Y.(*ssa.Const); isC && c1.Value != nil && c1.Int64() == 1 {
							step = true
							continue
						}
					}
					init, step = nil, false
					break
				}
				if init == nil || !step {
					continue
				}
				if v, has := e.frame.get(phi); has {
					if sc, isS := v.(Scalar); isS && sc.T.S.Kind == 1 {
						return TV{Scalar{bin("bvsub", sc.T, Const(sc.T.S.W, uint64(init.Int64())))}, phi.Type()}
					}
				}
			}
			fail("contract: loop %d has no counting variable (constant start, +1 on every back edge)", ord)
		case "visited":
			// visited(N, k): key k has been produced by the map range that drives loop N of the function under verification
			ord, _ := strconv.Atoi(n.Args[0].(*ast.BasicLit).Value)
			if x.cur == nil || e.frame == nil || ord < 1 || ord > len(x.cur.headers) {
				fail("contract: visited(%d, ·) outside a function with such a loop", ord)
			}
			hdr := x.cur.headers[ord-1]
			var vis *Term
			for blk := range x.cur.bodies[hdr] {
				for _, ins := range blk.Instrs {
					if nx, ok := ins.(*ssa.Next); ok {
						if rv, has := e.frame.get(nx.Iter); has {
							if r, isR := rv.(RangeV); isR && r.Obj != nil {
								vis = x.heapGet(e.state(), r.Obj).(Scalar).T
							}
						}
					}
				}
			}
			if vis == nil {
				fail("contract: loop %d is not a map range", ord)
			}
			k := e.eval(n.Args[1])
			return TV{Scalar{Select(vis, x.leafTerm(k.V))}, types.Typ[types.Bool]}
		case "sameobj":
			a := e.deref2(e.eval(n.Args[0]))
			b := e.deref2(e.eval(n.Args[1]))
			return TV{Scalar{BoolC(objOf(a) != nil && objOf(a) == objOf(b))}, types.Typ[types.Bool]}
		case "readerslice":
			// the slice a bytes.Reader (trusted model) was created over
			a := e.eval(n.Args[0])
			var p Ptr
			switch v := a.V.(type) {
			case IfaceV:
				pp, ok := v.V.(Ptr)
				if !ok {
					fail("contract: readerslice of a non-reader")
				}
				p = pp
			case Ptr:
				p = v
			default:
				fail("contract: readerslice of %T", a.V)
			}
			if p.Obj == nil || p.Obj.Name != "bytes.Reader" {
				fail("contract: readerslice: not a bytes.Reader (object %v)", p.Obj)
			}
			sv := x.load(e.state(), p).(StructV).F[0]
			return TV{sv, types.NewSlice(types.Typ[types.Uint8])}
		case "isreader":
			a := e.eval(n.Args[0])
			ok := false
			if iv, isI := a.V.(IfaceV); isI {
				if p, isP := iv.V.(Ptr); isP && p.Obj != nil && p.Obj.Name == "bytes.Reader" {
					ok = true
				}
			}
			return TV{Scalar{BoolC(ok)}, types.Typ[types.Bool]}
		case "aliases":
			a := e.deref(e.eval(n.Args[0]))
			b := e.deref(e.eval(n.Args[1]))
			sa, ok1 := a.V.(SliceV)
			sb, ok2 := b.V.(SliceV)
			if !ok1 || !ok2 {
				fail("contract: aliases() needs two slices")
			}
			return TV{Scalar{BoolC(sa.Obj == sb.Obj && samePath(sa.Base, sb.Base))}, types.Typ[types.Bool]}
		case "lo":
			a := e.deref(e.eval(n.Args[0]))
			sa, ok := a.V.(SliceV)
			if !ok {
				fail("contract: lo() needs a slice")
			}
			return TV{Scalar{sa.Off}, types.Typ[types.Int]}
		case "isdyn":
			// isdyn(x, "pkg.Type"): the dynamic type of interface value x is that type
			a := e.eval(n.Args[0])
			tn := n.Args[1].(*ast.BasicLit).Value
			tn = tn[1 : len(tn)-1]
			var v Value = a.V
			if r, ok := v.(RefV); ok {
				v = x.resolveRef(r.T, a.T)
			}
			var cs []*Term
			switch iv := v.(type) {
			case IfaceV, IfaceM:
				for _, k := range ifaceCases(iv) {
					if k.V.Unk != nil {
						cs = append(cs, And(k.C, Not(Eq(k.V.Unk, Const(32, 0))), Apply("isdyn:"+tn, BoolS, k.V.Unk)))
					} else if k.V.Dyn != nil && typeString(k.V.Dyn) == tn {
						cs = append(cs, k.C)
					}
				}
			case RefV:
				cs = append(cs, And(Not(Eq(iv.T, Const(32, 0))), Apply("isdyn:"+tn, BoolS, iv.T)))
			default:
				fail("contract: isdyn on %T", v)
			}
			if os.Getenv("SNESVC_DEBUG") != "" {
				if im, ok := v.(IfaceM); ok {
					cnt := map[string]int{}
					for _, k := range im.Cases {
						if k.V.Unk != nil {
							cnt["unknown"]++
						} else if k.V.Dyn == nil {
							cnt["nil"]++
						} else {
							cnt[typeString(k.V.Dyn)]++
						}
					}
					fmt.Fprintf(os.Stderr, "DBG isdyn(%s): %d cases %v\n", tn, len(im.Cases), cnt)
				} else {
					fmt.Fprintf(os.Stderr, "DBG isdyn(%s): value %T\n", tn, v)
				}
			}
			return TV{Scalar{Or(cs...)}, types.Typ[types.Bool]}
		case "isnil":
			a := e.eval(n.Args[0])
			return TV{Scalar{e.eqRef(a.V, RefV{Const(32, 0)})}, types.Typ[types.Bool]}
		case "ncalls":
			name := n.Args[0].(*ast.BasicLit).Value
			name = name[1 : len(name)-1]
			var cnt *Term = Const(64, 0)
			for _, ev := range e.post.Events {
				if ev.Callee == name {
					cnt = bin("bvadd", cnt, Ite(ev.Guard, Const(64, 1), Const(64, 0)))
				}
			}
			return TV{Scalar{cnt}, types.Typ[types.Int]}
		case "callarg":
			name := n.Args[0].(*ast.BasicLit).Value
			name = name[1 : len(name)-1]
			idx, _ := strconv.Atoi(n.Args[1].(*ast.BasicLit).Value)
			var found *Event
			for i := range e.post.Events {
				if e.post.Events[i].Callee == name {
					if found != nil {
						break // callarg refers to the FIRST call of that name
					}
					if false {
						var ds []string
						for _, ev := range e.post.Events {
							ds = append(ds, fmt.Sprintf("%s/%d[g=%s]", ev.Callee, len(ev.Args), ev.Guard.Op))
						}
						fail("contract: callarg(%s) is ambiguous (more than one call): %v", name, ds)
					}
					found = &e.post.Events[i]
				}
			}
			if found == nil || idx >= len(found.Args) {
				// no such call: an unconstrained value (the accompanying ncalls clause fails)
				if idx == 0 {
					return TV{RefV{x.freshVar("nocall", BV(32))}, nil}
				}
				return TV{Scalar{x.freshVar("nocall", BV(64))}, nil}
			}
			t := found.Args[idx]
			if idx == 0 {
				return TV{RefV{t}, nil}
			}
			return TV{Scalar{t}, nil}
		case "sext":
			// sext(x): sign-extend to 64 bits as int
			a := e.eval(n.Args[0])
			return TV{Scalar{SExt(a.V.(Scalar).T, 64)}, types.Typ[types.Int]}
		}
		// package-level function of the contract's own package
		if p := x.w.pkgs[e.pkg]; p != nil {
			if f := p.Func(id.Name); f != nil {
				return e.callFn(f, nil, n.Args)
			}
		}
		fail("contract: unknown function %s", id.Name)
	}
	if sel, ok := n.Fun.(*ast.SelectorExpr); ok {
		if id, ok := sel.X.(*ast.Ident); ok {
			_, isBound := e.bound[id.Name]
			isName := false
			if e.names != nil {
				_, _, isName = e.names(id.Name, e.useOld)
			}
			if !isBound && !isName {
				if p := e.findPkg(id.Name); p != nil {
					sp := x.w.prog.Package(p)
					if sp != nil {
						if f := sp.Func(sel.Sel.Name); f != nil {
							return e.callFn(f, nil, n.Args)
						}
					}
					fail("contract: function %s.%s not found", id.Name, sel.Sel.Name)
				}
			}
		}
		// method call on a value
		recv := e.eval(sel.X)
		if it, isI := recv.T.Underlying().(*types.Interface); isI {
			for i := 0; i < it.NumMethods(); i++ {
				m := it.Method(i)
				if m.Name() != sel.Sel.Name {
					continue
				}
				name := typeString(recv.T) + "." + m.Name()
				if !x.w.pureMethods[name] {
					fail("contract: %s is not declared pure", name)
				}
				ts := []*Term{x.refOf(recv.V)}
				sig := m.Type().(*types.Signature)
				for k, a := range n.Args {
					tv := e.eval(a)
					if sc, ok := tv.V.(Scalar); ok && tv.T == nil {
						w, _, _ := bitsOf(sig.Params().At(k).Type())
						tv = TV{Scalar{resize(sc.T, w)}, sig.Params().At(k).Type()}
					}
					ts = append(ts, x.leafTerm(tv.V))
				}
				rt := sig.Results().At(0).Type()
				rs, _ := leafSort(rt)
				return TV{x.leafValue(Apply(name+"#0", rs, ts...), rt), rt}
			}
		}
		ms := x.w.prog.MethodSets.MethodSet(recv.T)
		for i := 0; i < ms.Len(); i++ {
			if ms.At(i).Obj().Name() == sel.Sel.Name {
				f := x.w.prog.MethodValue(ms.At(i))
				return e.callFn(f, &recv, n.Args)
			}
		}
		fail("contract: method %s not found on %s", sel.Sel.Name, recv.T)
	}
	fail("contract: unsupported call")
	return TV{}
}

func (e *CEnv) callFn(f *ssa.Function, recv *TV, argx []ast.Expr) TV {
	var args []Value
	if recv != nil {
		args = append(args, recv.V)
	}
	sig := f.Signature
	for i, a := range argx {
		tv := e.eval(a)
		pt := sig.Params().At(i).Type()
		if s, ok := tv.V.(Scalar); ok && tv.T == nil && s.T.S.Kind == 1 {
			w, _, _ := bitsOf(pt)
			tv = TV{Scalar{resize(s.T, w)}, pt}
		}
		if s, ok := tv.V.(Scalar); ok && s.T.S.Kind == 1 {
			if w, _, ok2 := bitsOf(pt); ok2 && w != s.T.S.W {
				fail("contract: argument %d of %s has width %d, want %d", i, f.Name(), s.T.S.W, w)
			}
		}
		args = append(args, tv.V)
	}
	ret := e.callVals(f, args)
	var rt types.Type
	switch sig.Results().Len() {
	case 0:
		rt = nil
	case 1:
		rt = sig.Results().At(0).Type()
	default:
		rt = sig.Results()
	}
	return TV{ret, rt}
}

// callVals runs f on argument values. A spec function applied to an ite tree of literals is applied leaf by
// leaf (the function is pure), which lets table lookups composed with their inverse collapse.
func (e *CEnv) callVals(f *ssa.Function, args []Value) Value {
	x := e.x
	if strings.HasPrefix(f.String(), "verif/spec") && f.Signature.Results().Len() == 1 {
		for i, a := range args {
			sc, ok := a.(Scalar)
			if !ok || !iteLits(sc.T, 40) {
				continue
			}
			if _, isS := leafSort(f.Signature.Results().At(0).Type()); !isS || isString(f.Signature.Results().At(0).Type()) {
				break
			}
			var rec func(t *Term) *Term
			rec = func(t *Term) *Term {
				if t.Op == "ite" {
					return Ite(t.Args[0], rec(t.Args[1]), rec(t.Args[2]))
				}
				na := append([]Value(nil), args...)
				na[i] = Scalar{t}
				return x.leafTerm(e.callVals(f, na))
			}
			return x.leafValue(rec(sc.T), f.Signature.Results().At(0).Type())
		}
	}
	st := e.state()
	// spec / pure calls must not disturb the state: run on a clone and keep only the result
	outs := x.Call(st.clone(), f, args, nil, 1, "contract")
	var rets []Outcome
	for _, o := range outs {
		if o.Kind == oReturn {
			rets = append(rets, o)
		}
	}
	if len(rets) != 1 {
		fail("contract: call of %s has %d normal outcomes (must be total and mergeable)", f.Name(), len(rets))
	}
	// facts assumed inside the callee (e.g. after recorded spec obligations) carry over
	have := map[int64]bool{}
	for _, a := range st.Assume {
		have[a.id] = true
	}
	for _, a := range rets[0].St.Assume {
		if !have[a.id] {
			st.Assume = append(st.Assume, a)
		}
	}
	return rets[0].Ret
}

// evalLoc evaluates a location expression (for assigns / modifies): returns object and path prefix
func (e *CEnv) evalLoc(src string) Ptr {
	ps := e.evalLocs(src)
	return ps[len(ps)-1]
}

// evalLocs: a slice- or map-typed field denotes both its header and its contents
func (e *CEnv) evalLocs(src string) []Ptr {
	ex, err := parser.ParseExpr(src)
	if err != nil {
		fail("contract: bad location %q: %v", src, err)
	}
	e.extraLocs = nil
	p := e.loc(ex)
	return append(e.extraLocs, p)
}

func (e *CEnv) loc(ex ast.Expr) Ptr {
	switch n := ex.(type) {
	case *ast.ParenExpr:
		return e.loc(n.X)
	case *ast.SliceExpr:
		// s[:] — the contents of slice s only (its header is not part of the location)
		if n.Low != nil || n.High != nil {
			fail("contract: only s[:] is supported as a contents location")
		}
		v := e.deref(e.eval(n.X))
		sv, ok := v.V.(SliceV)
		if !ok {
			fail("contract: s[:] on %T", v.V)
		}
		saved := e.extraLocs
		_ = saved
		return Ptr{Obj: sv.Obj, Path: sv.Base}
	case *ast.StarExpr:
		tv := e.eval(n.X)
		hp := tv.V.(Ptr)
		// *p with a slice pointee: the header and the backing store (append writes into spare capacity)
		if pt, ok := tv.T.Underlying().(*types.Pointer); ok && hp.Obj != nil {
			if _, isSl := pt.Elem().Underlying().(*types.Slice); isSl {
				if sv, ok2 := e.x.load(e.post, hp).(SliceV); ok2 && sv.Obj != nil {
					e.extraLocs = append(e.extraLocs, hp)
					return Ptr{Obj: sv.Obj, Path: sv.Base}
				}
			}
		}
		return hp
	case *ast.Ident:
		// address-taken local: "&name" in frame names; pointer parameter: the pointee
		if e.names != nil {
			if v, _, ok := e.names("&"+n.Name, false); ok {
				return v.(Ptr)
			}
			if v, _, ok := e.names(n.Name, false); ok {
				switch vv := v.(type) {
				case Ptr:
					return vv
				case SliceV:
					return Ptr{Obj: vv.Obj, Path: vv.Base}
				case MapV:
					return Ptr{Obj: vv.Obj}
				}
			}
		}
	case *ast.SelectorExpr:
		base := e.eval(n.X)
		p, ok := base.V.(Ptr)
		var bt types.Type = base.T
		if _, isStruct := base.V.(StructV); isStruct && !ok {
			// field of a struct VALUE (e.g. a value receiver): only its referenced contents are a location
			switch fv := e.eval(n).V.(type) {
			case SliceV:
				return Ptr{Obj: fv.Obj, Path: fv.Base}
			case MapV:
				return Ptr{Obj: fv.Obj}
			}
		}
		if !ok {
			p = e.loc(n.X)
			bt = base.T
		} else {
			bt = base.T.Underlying().(*types.Pointer).Elem()
		}
		fi, ft := findField(bt, n.Sel.Name)
		if fi == nil {
			fail("contract: no field %s", n.Sel.Name)
		}
		np := Ptr{Obj: p.Obj, Path: append([]PathElem(nil), p.Path...)}
		for _, k := range fi {
			np.Path = append(np.Path, PathElem{Field: k})
		}
		// a slice/map-typed field denotes its contents
		switch ft.Underlying().(type) {
		case *types.Slice:
			sv := e.x.load(e.post, np).(SliceV)
			if sv.Obj != nil {
				// both the header and the backing store
				e.extraLocs = append(e.extraLocs, np)
				return Ptr{Obj: sv.Obj, Path: sv.Base}
			}
		case *types.Map:
			mv := e.x.load(e.post, np).(MapV)
			if mv.Obj != nil {
				e.extraLocs = append(e.extraLocs, np)
				return Ptr{Obj: mv.Obj}
			}
		}
		return np
	}
	fail("contract: unsupported location expression")
	return Ptr{}
}

func fileBase(p string) string { return filepath.Base(p) }

func (e *CEnv) deref2(tv TV) Value { return tv.V }

func objOf(v Value) *Object {
	switch s := v.(type) {
	case MapV:
		return s.Obj
	case SliceV:
		return s.Obj
	case Ptr:
		return s.Obj
	}
	return nil
}
