package main

import (
	"fmt"
	"golang.org/x/tools/go/ssa/ssautil"
	"os"
	"runtime/debug"
	"runtime/pprof"
	"sort"
	"strconv"
	"strings"
	"sync"
	"time"

	"golang.org/x/tools/go/ssa"
)

// A property check = every contract / lemma tagged with the property, plus an optional custom driver.
type propDriver func(w *World, c *Checker)

var drivers = map[string]propDriver{}

func usage() {
	fmt.Fprintln(os.Stderr, "usage: snesvc check <Cxx> [quick|thorough] | snesvc list | snesvc selftest")
	os.Exit(3)
}

func main() {
	if len(os.Args) < 2 {
		usage()
	}
	if pf := os.Getenv("SNESVC_PROF"); pf != "" {
		f, _ := os.Create(pf)
		pprof.StartCPUProfile(f)
		go func() {
			time.Sleep(50 * time.Second)
			pprof.StopCPUProfile()
			f.Close()
			os.Exit(9)
		}()
	}
	switch os.Args[1] {
	case "check":
		if len(os.Args) < 3 {
			usage()
		}
		tier := os.Getenv("VERIF_TIER")
		if len(os.Args) > 3 {
			tier = os.Args[3]
		}
		if tier == "" {
			tier = "quick"
		}
		seed, _ := strconv.Atoi(os.Getenv("VERIF_SEED"))
		rc := runCheck(os.Args[2], tier, seed)
		cleanupSmtTmp()
		os.Exit(rc)
	case "list":
		w := loadWorld()
		var keys []string
		for k := range w.contracts {
			keys = append(keys, k)
		}
		sort.Strings(keys)
		for _, k := range keys {
			c := w.contracts[k]
			fmt.Printf("%-70s %v modular=%v lemma=%v\n", k, c.Props, c.Modular, c.Lemma)
		}
	case "allfuncs":
		// allfuncs: every function and method with a body in the repository's packages (inventory for DESIGN appendix H)
		w := loadWorld()
		var names []string
		for fn := range ssautil.AllFunctions(w.prog) {
			if fn.Pkg == nil || !strings.HasPrefix(fn.Pkg.Pkg.Path(), repoPath) || len(fn.Blocks) == 0 || fn.Synthetic != "" {
				continue
			}
			if fn.Parent() != nil || fn.Name() == "init" {
				continue
			}
			names = append(names, fnName(fn))
		}
		sort.Strings(names)
		for _, n := range names {
			fmt.Println(n)
		}
	case "paramnames":
		// paramnames: "<file>\t<contract name>\t<receiver and parameter names>" for every contract on a repository function
		w := loadWorld()
		for _, fc := range w.contracts {
			if fc.Lemma {
				continue
			}
			fn := w.resolveFn(fc)
			if fn == nil {
				continue
			}
			var ps []string
			for _, p := range fn.Params {
				ps = append(ps, p.Name())
			}
			fmt.Printf("%s\t%s\t%s\n", fc.File, fc.Name, strings.Join(ps, " "))
		}
	case "loops":
		w := loadWorld()
		for _, fc := range w.contracts {
			if !strings.Contains(fc.Key, os.Args[2]) {
				continue
			}
			fn := w.resolveFn(fc)
			if fn == nil {
				continue
			}
			for i, h := range loopHeaders(fn) {
				var ps []string
				for k := 0; k < skipPhis(h); k++ {
					ps = append(ps, h.Instrs[k].(*ssa.Phi).Comment)
				}
				fmt.Printf("%s loop %d: block %d (%s) phis %v\n", fc.Key, i+1, h.Index, h.Comment, ps)
			}
		}
	default:
		usage()
	}
}

func runCheck(prop, tier string, seed int) (exit int) {
	c := NewChecker(prop, tier, seed)
	defer func() {
		if r := recover(); r != nil {
			if ee, ok := r.(engineErr); ok {
				fmt.Printf("UNDECIDED property=%s reason=%s\n", prop, ee.msg)
				exit = 2
				return
			}
			fmt.Printf("UNDECIDED property=%s reason=engine panic: %v\n%s\n", prop, r, debug.Stack())
			exit = 2
		}
	}()
	t0 := time.Now()
	w := loadWorld()
	c.Notes = append(c.Notes, fmt.Sprintf("load + SSA + package init: %.1fs", time.Since(t0).Seconds()))
	// contracts tagged with the property
	var cs []*FnContract
	for _, fc := range w.contracts {
		for _, p := range fc.Props {
			if p == prop && strings.Contains(fc.Key, os.Getenv("SNESVC_ONLY")) {
				cs = append(cs, fc)
			}
		}
	}
	sort.Slice(cs, func(i, j int) bool { return cs[i].Key < cs[j].Key })
	var wg sync.WaitGroup
	var mu sync.Mutex
	var all []Oblig
	sem := make(chan struct{}, 16)
	for _, fc := range cs {
		fc := fc
		fn := w.resolveFn(fc)
		if fn == nil {
			c.Undecided = append(c.Undecided, "contract names a function that no longer exists: "+fc.Key)
			continue
		}
		if fc.Trusted {
			c.Functions[fnName(fn)] = "trusted contract (assumed)"
			continue
		}
		ops := []int{-1}
		if fc.Harness != "" && fc.HArgs["op"] != "" {
			ops = opList(os.Getenv("SNESVC_OPS"))
			if fc.Ops != "" {
				ops = opList(fc.Ops)
			}
		}
		for _, op := range ops {
			op := op
			wg.Add(1)
			go func() {
				defer wg.Done()
				sem <- struct{}{}
				defer func() { <-sem }()
				x := NewExec(w)
				x.NoSafety = fc.NoSafety
				res := x.VerifyJob(fn, fc, op)
				c.Discharge(res.Obligs, res.Fn)
				mu.Lock()
				defer mu.Unlock()
				if res.Undecided != "" {
					c.Undecided = append(c.Undecided, fmt.Sprintf("%s@op=%02X: %s", res.Fn, op, res.Undecided))
				}
				how := "under contract"
				if fc.Lemma {
					how = "lemma"
				}
				c.Functions[res.Fn] = how
				for f := range x.Inlined {
					if _, ok := c.Functions[f]; !ok {
						c.Functions[f] = "summarised (inlined into callers' obligations)"
					}
				}
				for f := range x.Modular {
					if c.Functions[f] == "" || strings.HasPrefix(c.Functions[f], "summarised") {
						c.Functions[f] = "used through its contract at call sites"
					}
				}
				for t, n := range x.Trusted {
					c.Trusted[t] += n
				}
				for k, n := range x.Stats {
					if os.Getenv("SNESVC_DEBUG") != "" && strings.HasPrefix(k, "mergefail") {
						fmt.Fprintf(os.Stderr, "DBG %s: %s x%d\n", res.Fn, k, n)
					}
					if strings.HasPrefix(k, "global_store") {
						c.Notes = append(c.Notes, fmt.Sprintf("store to package-level state outside init: %s (%d)", k, n))
					}
				}
				if fc.NoSafety {
					c.noSafety = true
				}
			}()
		}
	}
	wg.Wait()
	_ = all
	if c.noSafety {
		c.Assump = append(c.Assump, "lemmas marked nosafety assume that the real code does not panic at runtime on the lemma's inputs; that is the subject of property C08 (StepSafe*), not re-proved here")
	}
	if d, ok := drivers[prop]; ok {
		d(w, c)
	}
	c.RunRetries()
	c.Assump = append(c.Assump, baseAssumptions...)
	return c.Finish(w, func(r *ObResult) (bool, interface{}) { return replayScalar(w, c, r) })
}

var baseAssumptions = []string{
	"distinct input slices / maps / pointers do not alias",
	"input pointers and maps are non-nil; input slice lengths are below 2^32",
	"append returns a slice over a fresh backing array (no reliance on append aliasing its argument)",
	"termination is proved only where a decreases clause is given",
}

func methodByName(w *World, fn *ssa.Function) string { return fnName(fn) }
