package main

// Forward symbolic execution (strongest postcondition) over go/ssa with state merging
// at the immediate post-dominator of every branch and at every call return.

import (
	"fmt"
	"go/constant"
	"go/token"
	"go/types"
	"strings"

	"golang.org/x/tools/go/ssa"
)

type Oblig struct {
	Name string
	Cond *Term // must hold under PC
	PC   *Term
	Kind string // bounds, nil, divzero, pre, ensures, invariant, ...
	Fn   string
	// optional adaptive case split: if the goal is not decided whole, it is decided per value of SplitT
	SplitT           *Term
	SplitLo, SplitHi int
}

type Exec struct {
	w        *World
	symOpen  map[string]bool // pointee types being unfolded by sym (cycle guard)
	nextObj  int
	fresh    int
	objs     map[int]*Object
	ifaceReg map[int]IfaceV
	nextIf   int
	Obligs   []Oblig
	obSeen   map[string]bool
	maxDepth int
	Stats    map[string]int
	cur      *verifyCtx
	mctx     *mergeCtx
	// NoOblig suppresses implicit-panic obligations (used while evaluating spec functions: recorded under spec.*)
	specDepth int
	// unknown-callee handling
	Trusted map[string]int
	// panics-as-exits mode: implicit panics become Panic outcomes instead of obligations
	ImplicitAsPanic bool
	maxUnroll       int
	// summaries: function names inlined (evidence)
	Inlined map[string]int
	Modular map[string]int
	// store hook for frame / loop-modifies checks
	storeHook func(st *State, p Ptr)
	ctxSuffix string
	NoSafety  bool
	funcIDs   map[string]int
}

const (
	oReturn = iota
	oPanic
	oDead
	oReached
)

type Outcome struct {
	Kind     int
	St       *State
	Fr       *Frame
	Prev     *ssa.BasicBlock
	PhiBound bool // the frame already holds the phi values of the reached block
	Ret      Value
	PanicS   string
	Explicit bool // explicit panic(...) statement (vs. runtime panic)
	PanicV   Value
}

type Frame struct {
	fn     *ssa.Function
	env    map[ssa.Value]Value
	names  map[string]TV
	parent *Frame
	depth  int
	top    bool // the function under verification
	// loop measures recorded at header entry (verification mode)
	measures map[*ssa.BasicBlock]*Term
	iters    map[*ssa.BasicBlock]int
}

func (f *Frame) child() *Frame {
	return &Frame{fn: f.fn, env: map[ssa.Value]Value{}, names: map[string]TV{}, parent: f, depth: f.depth, top: f.top}
}
func (f *Frame) get(v ssa.Value) (Value, bool) {
	for g := f; g != nil; g = g.parent {
		if r, ok := g.env[v]; ok {
			return r, true
		}
	}
	return nil, false
}
func (f *Frame) name(n string) (TV, bool) {
	for g := f; g != nil; g = g.parent {
		if r, ok := g.names[n]; ok {
			return r, true
		}
	}
	return TV{}, false
}
func (f *Frame) measure(b *ssa.BasicBlock) *Term {
	for g := f; g != nil; g = g.parent {
		if r, ok := g.measures[b]; ok {
			return r
		}
	}
	return nil
}
func (f *Frame) iter(b *ssa.BasicBlock) int {
	for g := f; g != nil; g = g.parent {
		if r, ok := g.iters[b]; ok {
			return r
		}
	}
	return 0
}

type engineErr struct{ msg string }

func fail(format string, a ...interface{}) {
	panic(engineErr{fmt.Sprintf(format, a...)})
}

type mergeFail struct{ msg string }

func NewExec(w *World) *Exec {
	x := &Exec{w: w, nextObj: 1 << 20, objs: map[int]*Object{}, ifaceReg: map[int]IfaceV{}, nextIf: 1,
		obSeen: map[string]bool{}, maxDepth: 60, Stats: map[string]int{}, Trusted: map[string]int{},
		maxUnroll: 5000, Inlined: map[string]int{}, Modular: map[string]int{}}
	return x
}

func (x *Exec) newObj(t types.Type, name string) *Object {
	x.nextObj++
	o := &Object{ID: x.nextObj, Typ: t, Name: name}
	x.objs[o.ID] = o
	return o
}
func (x *Exec) freshVar(prefix string, s *Sort) *Term {
	x.fresh++
	return Var(fmt.Sprintf("%s!%d", sanitize(prefix), x.fresh), s)
}
func sanitize(s string) string {
	r := strings.NewReplacer(" ", "_", "*", "p", "(", "_", ")", "_", "/", "_", "[", "_", "]", "_", ",", "_", "|", "_", "\\", "_")
	return r.Replace(s)
}

func bitsOf(t types.Type) (int, bool, bool) { // width, signed, ok
	b, ok := t.Underlying().(*types.Basic)
	if !ok {
		return 0, false, false
	}
	switch b.Kind() {
	case types.Bool, types.UntypedBool:
		return 1, false, true
	case types.Int8:
		return 8, true, true
	case types.Uint8:
		return 8, false, true
	case types.Int16:
		return 16, true, true
	case types.Uint16:
		return 16, false, true
	case types.Int32, types.UntypedRune:
		return 32, true, true
	case types.Uint32:
		return 32, false, true
	case types.Int, types.Int64, types.UntypedInt:
		return 64, true, true
	case types.Uint, types.Uint64, types.Uintptr:
		return 64, false, true
	}
	return 0, false, false
}
func isBool(t types.Type) bool {
	b, ok := t.Underlying().(*types.Basic)
	return ok && (b.Kind() == types.Bool || b.Kind() == types.UntypedBool)
}
func isString(t types.Type) bool {
	b, ok := t.Underlying().(*types.Basic)
	return ok && (b.Kind() == types.String || b.Kind() == types.UntypedString)
}
func isScalarType(t types.Type) bool {
	_, _, ok := bitsOf(t)
	return ok
}

// leafSort: the SMT sort of a scalar-like Go type (ints, bools, strings, references)
func leafSort(t types.Type) (*Sort, bool) {
	if isBool(t) {
		return BoolS, true
	}
	if isString(t) {
		return StrS, true
	}
	if w, _, ok := bitsOf(t); ok {
		return BV(w), true
	}
	switch t.Underlying().(type) {
	case *types.Interface, *types.Signature:
		return BV(32), true
	}
	return nil, false
}

const bigArray = 4096

func (x *Exec) zero(t types.Type) Value {
	switch u := t.Underlying().(type) {
	case *types.Basic:
		if isBool(t) {
			return Scalar{False()}
		}
		if isString(t) {
			return StrV{StrLit("")}
		}
		w, _, ok := bitsOf(t)
		if ok {
			return Scalar{Const(w, 0)}
		}
		if u.Kind() == types.UnsafePointer {
			return Ptr{}
		}
	case *types.Struct:
		s := StructV{}
		for i := 0; i < u.NumFields(); i++ {
			s.F = append(s.F, x.zero(u.Field(i).Type()))
		}
		return s
	case *types.Array:
		if u.Len() > bigArray {
			if s, ok := leafSort(u.Elem()); ok {
				var z *Term
				switch s.Kind {
				case 0:
					z = False()
				case 1:
					z = Const(s.W, 0)
				default:
					z = StrLit("")
				}
				return ArrayT{T: ConstArr(ArrS(BV(64), s), z), Len: u.Len(), Elem: u.Elem()}
			}
			fail("zero: big array of %s", u.Elem())
		}
		a := ArrayV{}
		for i := int64(0); i < u.Len(); i++ {
			a.E = append(a.E, x.zero(u.Elem()))
		}
		return a
	case *types.Pointer:
		return Ptr{}
	case *types.Slice:
		return SliceV{Off: Const(64, 0), Len: Const(64, 0), Cap: Const(64, 0)}
	case *types.Interface:
		return IfaceV{}
	case *types.Signature:
		return FuncV{}
	case *types.Map:
		return MapV{}
	}
	fail("zero: unsupported type %s", t)
	return nil
}

func (x *Exec) constVal(c *ssa.Const) Value {
	t := c.Type()
	if c.Value == nil {
		return x.zero(t)
	}
	if isBool(t) {
		return Scalar{BoolC(constant.BoolVal(c.Value))}
	}
	if isString(t) {
		return StrV{StrLit(constant.StringVal(c.Value))}
	}
	if w, _, ok := bitsOf(t); ok {
		if i, ok := constant.Int64Val(constant.ToInt(c.Value)); ok {
			return Scalar{Const(w, uint64(i))}
		}
		u, _ := constant.Uint64Val(constant.ToInt(c.Value))
		return Scalar{Const(w, u)}
	}
	fail("const: unsupported %s", c)
	return nil
}

func (x *Exec) val(fr *Frame, v ssa.Value) Value {
	switch c := v.(type) {
	case *ssa.Const:
		return x.constVal(c)
	case *ssa.Global:
		return Ptr{Obj: x.w.globalObj(c)}
	case *ssa.Function:
		return FuncV{Fn: c}
	case *ssa.Builtin:
		return FuncV{Fn: c}
	}
	r, ok := fr.get(v)
	if !ok {
		fail("val: unbound %s (%T) in %s", v.Name(), v, fr.fn)
	}
	return r
}

// ---- interface ids ----
func (x *Exec) refOf(v Value) *Term {
	switch s := v.(type) {
	case Scalar:
		return s.T
	case RefV:
		return s.T
	case IfaceV:
		if s.Unk != nil {
			return s.Unk
		}
		if s.Dyn == nil {
			return Const(32, 0)
		}
		if p, ok := s.V.(Ptr); ok && p.Obj != nil && len(p.Path) == 0 {
			return Const(32, uint64(0x1000000+p.Obj.ID))
		}
		if s.ID != 0 {
			return Const(32, uint64(s.ID))
		}
		fail("refOf: interface value without identity (%s)", s.Dyn)
	case IfaceM:
		var r *Term = Const(32, 0)
		for _, k := range s.Cases {
			r = Ite(k.C, x.refOf(k.V), r)
		}
		return r
	case FuncV:
		if s.Fn == nil {
			return Const(32, 0)
		}
		return Const(32, uint64(x.funcID(s)))
	case Ptr:
		if s.Obj == nil {
			return Const(32, 0)
		}
		return Const(32, uint64(0x1000000+s.Obj.ID))
	}
	fail("refOf %T", v)
	return nil
}

func (x *Exec) funcID(f FuncV) int {
	// closures / functions stored into reference arrays get registry ids (stable per function + bindings)
	key := fmt.Sprintf("%p", f.Fn)
	for _, b := range f.Bind {
		switch bv := b.(type) {
		case Ptr:
			if bv.Obj != nil {
				key += fmt.Sprintf("|o%d%s", bv.Obj.ID, pathStr(bv.Obj.Typ, bv.Path))
			} else {
				key += "|nil"
			}
		case Scalar:
			key += fmt.Sprintf("|t%d", bv.T.id)
		default:
			key += fmt.Sprintf("|%T", b)
		}
	}
	if x.funcIDs == nil {
		x.funcIDs = map[string]int{}
	}
	if id, ok := x.funcIDs[key]; ok {
		return id
	}
	defer func() { x.funcIDs[key] = x.nextIf }()
	x.nextIf++
	id := x.nextIf
	x.ifaceReg[id] = IfaceV{Dyn: nil, V: f, ID: id}
	return id
}

func (x *Exec) makeIface(t types.Type, v Value) IfaceV {
	iv := IfaceV{Dyn: t, V: v}
	if p, ok := v.(Ptr); ok && len(p.Path) == 0 {
		return iv
	}
	x.nextIf++
	iv.ID = x.nextIf
	x.ifaceReg[iv.ID] = iv
	return iv
}

// resolveRef turns a reference id term into a concrete value when possible
func (x *Exec) resolveRef(t *Term, typ types.Type) Value {
	if t.IsConst() {
		if t.Val == 0 {
			return x.zero(typ)
		}
		if t.Val >= 0x1000000 {
			o := x.objs[int(t.Val-0x1000000)]
			if o == nil {
				o = x.w.gobjs[int(t.Val-0x1000000)]
			}
			if o != nil {
				return IfaceV{Dyn: types.NewPointer(o.Typ), V: Ptr{Obj: o}}
			}
		}
		if iv, ok := x.ifaceReg[int(t.Val)]; ok {
			if f, isF := iv.V.(FuncV); isF && iv.Dyn == nil {
				return f
			}
			return iv
		}
		if iv, ok := x.w.gifaces[int(t.Val)]; ok {
			return iv
		}
	}
	// guarded cases from an ite tree of constants: leaves are collected with their path conditions
	if t.Op == "ite" {
		type leaf struct {
			g *Term
			t *Term
		}
		var leaves []leaf
		budget := 20000
		var walk func(t *Term, pc []*Term) bool
		walk = func(t *Term, pc []*Term) bool {
			if budget <= 0 {
				return false
			}
			if t.Op == "ite" {
				budget--
				c := t.Args[0]
				return walk(t.Args[1], append(pc[:len(pc):len(pc)], c)) && walk(t.Args[2], append(pc[:len(pc):len(pc)], Not(c)))
			}
			g := And(pc...)
			if !g.IsFalse() {
				leaves = append(leaves, leaf{g, t})
			}
			return true
		}
		if walk(t, nil) {
			var cases []IfaceCase
			isFunc := false
			for _, lf := range leaves {
				v := x.resolveRef(lf.t, typ)
				var iv IfaceV
				switch vv := v.(type) {
				case IfaceV:
					iv = vv
				case RefV:
					iv = IfaceV{Unk: vv.T}
				default:
					isFunc = true
				}
				if isFunc {
					break
				}
				merged := false
				for k := range cases {
					if sameIface(cases[k].V, iv) {
						cases[k].C = Or(cases[k].C, lf.g)
						merged = true
						break
					}
				}
				if !merged {
					cases = append(cases, IfaceCase{lf.g, iv})
				}
			}
			if !isFunc && len(cases) > 0 {
				if len(cases) == 1 {
					if cases[0].V.Unk != nil {
						return RefV{cases[0].V.Unk}
					}
					return cases[0].V
				}
				return IfaceM{cases}
			}
		}
	}
	return RefV{t}
}

func ifaceCases(v Value) []IfaceCase {
	switch iv := v.(type) {
	case IfaceV:
		return []IfaceCase{{True(), iv}}
	case IfaceM:
		return iv.Cases
	}
	panic(mergeFail{fmt.Sprintf("ifaceCases: %T", v)})
}
func sameIface(a, b IfaceV) bool {
	if a.Unk != nil || b.Unk != nil {
		return a.Unk == b.Unk
	}
	if a.Dyn == nil || b.Dyn == nil {
		return a.Dyn == nil && b.Dyn == nil
	}
	if a.ID != 0 || b.ID != 0 {
		return a.ID == b.ID
	}
	ap, aok := a.V.(Ptr)
	bp, bok := b.V.(Ptr)
	return aok && bok && ap.Obj == bp.Obj && len(ap.Path) == 0 && len(bp.Path) == 0
}
func mergeIface(c *Term, a, b Value) Value {
	var out []IfaceCase
	add := func(g *Term, v IfaceV) {
		if g.IsFalse() {
			return
		}
		for i := range out {
			if sameIface(out[i].V, v) {
				out[i].C = Or(out[i].C, g)
				return
			}
		}
		out = append(out, IfaceCase{g, v})
	}
	for _, k := range ifaceCases(a) {
		add(And(c, k.C), k.V)
	}
	for _, k := range ifaceCases(b) {
		add(And(Not(c), k.C), k.V)
	}
	if len(out) == 1 {
		return out[0].V
	}
	return IfaceM{out}
}
func ifaceIsNil(v Value) *Term {
	var cs []*Term
	for _, k := range ifaceCases(v) {
		if k.V.Unk != nil {
			cs = append(cs, And(k.C, Eq(k.V.Unk, Const(32, 0))))
		} else if k.V.Dyn == nil {
			cs = append(cs, k.C)
		}
	}
	return Or(cs...)
}

// ---- merging ----
func samePath(a, b []PathElem) bool {
	if len(a) != len(b) {
		return false
	}
	for i := range a {
		if a[i].Field != b[i].Field || a[i].Idx != b[i].Idx {
			return false
		}
	}
	return true
}

func (x *Exec) mergeV(c *Term, a, b Value) Value {
	if c.IsTrue() {
		return a
	}
	if c.IsFalse() {
		return b
	}
	switch av := a.(type) {
	case Scalar:
		bv, ok := b.(Scalar)
		if !ok {
			panic(mergeFail{fmt.Sprintf("Scalar/%T", b)})
		}
		return Scalar{Ite(c, av.T, bv.T)}
	case StrV:
		return StrV{Ite(c, av.T, b.(StrV).T)}
	case RefV:
		return RefV{Ite(c, av.T, x.refOf(b))}
	case IfaceV, IfaceM:
		if br, ok := b.(RefV); ok {
			return RefV{Ite(c, x.refOf(a), br.T)}
		}
		return mergeIface(c, a, b)
	case TupleV:
		bv := b.(TupleV)
		r := TupleV{E: make([]Value, len(av.E))}
		for i := range av.E {
			r.E[i] = x.mergeV(c, av.E[i], bv.E[i])
		}
		return r
	case Opaque:
		return av
	case MapV:
		if av.Obj == b.(MapV).Obj {
			return av
		}
	case MapT:
		bv := b.(MapT)
		return MapT{Has: Ite(c, av.Has, bv.Has), Val: x.mergeV(c, av.Val, bv.Val), K: av.K, KT: av.KT, VT: av.VT}
	case SeqL:
		bv := b.(SeqL)
		return SeqL{Len: Ite(c, av.Len, bv.Len), Data: Ite(c, av.Data, bv.Data), Elem: av.Elem}
	case SeqV:
		if bv, ok := b.(SeqV); ok && av.Data.S == bv.Data.S {
			return SeqV{Len: Ite(c, av.Len, bv.Len), Data: Ite(c, av.Data, bv.Data), Elem: av.Elem}
		}
	case SliceV:
		bv := b.(SliceV)
		if av.Obj == bv.Obj && samePath(av.Base, bv.Base) {
			var n *Term
			if av.Nil != nil || bv.Nil != nil {
				n = Ite(c, sliceNil(av), sliceNil(bv))
			}
			return SliceV{Obj: av.Obj, Base: av.Base, Off: Ite(c, av.Off, bv.Off), Len: Ite(c, av.Len, bv.Len), Cap: Ite(c, av.Cap, bv.Cap), Nil: n}
		}
		// two different backings that both came out of append on their own path (linear use): the merged slice
		// gets one new backing whose content is selected by the branch condition
		if mc := x.mctx; mc != nil && av.Obj != nil && bv.Obj != nil && av.Obj.Owned && bv.Obj.Owned && len(av.Base) == 0 && len(bv.Base) == 0 &&
			av.Off.IsConst() && av.Off.Val == 0 && bv.Off.IsConst() && bv.Off.Val == 0 && av.Nil == nil && bv.Nil == nil {
			_, aEntry := mc.entry[av.Obj.ID]
			_, bEntry := mc.entry[bv.Obj.ID]
			ca, okA := mc.cur[av.Obj.ID]
			cb, okB := mc.acc[bv.Obj.ID]
			if !aEntry && !bEntry && okA && okB {
				no := x.newObj(av.Obj.Typ, "append#backing")
				no.Owned = true
				mc.acc[no.ID] = x.mergeV(c, ca, cb)
				return SliceV{Obj: no, Off: Const(64, 0), Len: Ite(c, av.Len, bv.Len), Cap: Ite(c, av.Cap, bv.Cap)}
			}
		}
	case StructV:
		bv := b.(StructV)
		if len(av.F) > 0 && &av.F[0] == &bv.F[0] {
			return av
		}
		r := StructV{F: make([]Value, len(av.F))}
		for i := range av.F {
			r.F[i] = x.mergeV(c, av.F[i], bv.F[i])
		}
		return r
	case ArrayV:
		if bt, isT := b.(ArrayT); isT {
			if at, ok := arrayVtoT(av, bt); ok {
				return ArrayT{T: Ite(c, at.T, bt.T), Len: bt.Len, Elem: bt.Elem}
			}
		}
		bv := b.(ArrayV)
		if len(av.E) > 0 && &av.E[0] == &bv.E[0] {
			return av
		}
		r := ArrayV{E: make([]Value, len(av.E))}
		for i := range av.E {
			r.E[i] = x.mergeV(c, av.E[i], bv.E[i])
		}
		return r
	case ArrayT:
		if bvv, isV := b.(ArrayV); isV {
			if bt, ok := arrayVtoT(bvv, av); ok {
				return ArrayT{T: Ite(c, av.T, bt.T), Len: av.Len, Elem: av.Elem}
			}
		}
		bv := b.(ArrayT)
		return ArrayT{T: Ite(c, av.T, bv.T), Len: av.Len, Elem: av.Elem}
	case ArrayS:
		bv := b.(ArrayS)
		return ArrayS{L: x.mergeV(c, av.L, bv.L), Len: av.Len, Elem: av.Elem}
	case FuncV:
		bv, ok := b.(FuncV)
		if ok && av.Fn == bv.Fn && len(av.Bind) == len(bv.Bind) {
			same := true
			for i := range av.Bind {
				if !sameValue(av.Bind[i], bv.Bind[i]) {
					same = false
				}
			}
			if same {
				return av
			}
		}
	case Ptr:
		bv := b.(Ptr)
		if av.Obj == bv.Obj && samePath(av.Path, bv.Path) {
			return av
		}
	case nil:
		if b == nil {
			return nil
		}
	}
	panic(mergeFail{fmt.Sprintf("mergeV: unsupported %T / %T", a, b)})
}

// arrayVtoT: an explicit array of scalars as an SMT array of the same shape as like
func arrayVtoT(a ArrayV, like ArrayT) (ArrayT, bool) {
	var t *Term
	for i, e := range a.E {
		s, ok := e.(Scalar)
		if !ok || s.T.S != like.T.S.Elem {
			return ArrayT{}, false
		}
		if t == nil {
			t = ConstArr(like.T.S, s.T)
			continue
		}
		t = Store(t, Const(64, uint64(i)), s.T)
	}
	if t == nil {
		return ArrayT{}, false
	}
	return ArrayT{T: t, Len: like.Len, Elem: like.Elem}, true
}

func sliceNil(s SliceV) *Term {
	if s.Nil != nil {
		return s.Nil
	}
	return BoolC(s.Obj == nil)
}

// sameValue: cheap structural identity (used for closure bindings)
func sameValue(a, b Value) bool {
	switch av := a.(type) {
	case Scalar:
		bv, ok := b.(Scalar)
		return ok && av.T == bv.T
	case Ptr:
		bv, ok := b.(Ptr)
		return ok && av.Obj == bv.Obj && samePath(av.Path, bv.Path)
	case StrV:
		bv, ok := b.(StrV)
		return ok && av.T == bv.T
	case RefV:
		bv, ok := b.(RefV)
		return ok && av.T == bv.T
	}
	return false
}

// ---- heap paths ----
func (x *Exec) getPath(v Value, path []PathElem) Value {
	if len(path) == 0 {
		return v
	}
	p := path[0]
	switch vv := v.(type) {
	case StructV:
		return x.getPath(vv.F[p.Field], path[1:])
	case ArrayV:
		if p.Idx.IsConst() {
			if p.Idx.Val >= uint64(len(vv.E)) {
				fail("getPath: constant index %d out of range %d (obligation should have caught)", p.Idx.Val, len(vv.E))
			}
			return x.getPath(vv.E[p.Idx.Val], path[1:])
		}
		var r Value
		for i := len(vv.E) - 1; i >= 0; i-- {
			e := x.getPath(vv.E[i], path[1:])
			if r == nil {
				r = e
			} else {
				r = x.mergeV(Eq(p.Idx, Const(64, uint64(i))), e, r)
			}
		}
		return r
	case ArrayT:
		if len(path) != 1 {
			fail("getPath: nested path into ArrayT")
		}
		return x.leafValue(Select(vv.T, p.Idx), vv.Elem)
	case ArrayS:
		return x.getPath(x.liftSelect(vv.L, p.Idx, vv.Elem), path[1:])
	}
	fail("getPath: bad value %T", v)
	return nil
}

// leafValue wraps a term of a scalar-like Go type
func (x *Exec) leafValue(t *Term, typ types.Type) Value {
	if isString(typ) {
		return StrV{t}
	}
	if isScalarType(typ) {
		return Scalar{t}
	}
	return x.resolveRef(t, typ)
}

func (x *Exec) leafTerm(v Value) *Term {
	switch s := v.(type) {
	case Scalar:
		return s.T
	case StrV:
		return s.T
	}
	return x.refOf(v)
}

func (x *Exec) setPath(v Value, path []PathElem, nv Value) Value {
	if len(path) == 0 {
		return nv
	}
	p := path[0]
	switch vv := v.(type) {
	case StructV:
		r := StructV{F: append([]Value(nil), vv.F...)}
		r.F[p.Field] = x.setPath(vv.F[p.Field], path[1:], nv)
		return r
	case ArrayV:
		r := ArrayV{E: append([]Value(nil), vv.E...)}
		if p.Idx.IsConst() {
			r.E[p.Idx.Val] = x.setPath(vv.E[p.Idx.Val], path[1:], nv)
			return r
		}
		for i := range r.E {
			r.E[i] = x.mergeV(Eq(p.Idx, Const(64, uint64(i))), x.setPath(vv.E[i], path[1:], nv), vv.E[i])
		}
		return r
	case ArrayT:
		if len(path) != 1 {
			fail("setPath: nested path into ArrayT")
		}
		return ArrayT{T: Store(vv.T, p.Idx, x.leafTerm(nv)), Len: vv.Len, Elem: vv.Elem}
	case ArrayS:
		el := nv
		if len(path) > 1 {
			el = x.setPath(x.liftSelect(vv.L, p.Idx, vv.Elem), path[1:], nv)
		}
		return ArrayS{L: x.liftStore(vv.L, p.Idx, el), Len: vv.Len, Elem: vv.Elem}
	}
	fail("setPath: bad value %T", v)
	return nil
}

func (x *Exec) heapGet(st *State, o *Object) Value {
	if v, ok := st.Heap[o.ID]; ok {
		return v
	}
	if v, ok := x.w.GHeap[o.ID]; ok {
		return v
	}
	v := x.zero(o.Typ)
	st.Heap[o.ID] = v
	return v
}

func (x *Exec) load(st *State, p Ptr) Value {
	if p.Obj == nil {
		fail("load: nil dereference (obligation should have caught)")
	}
	return x.getPath(x.heapGet(st, p.Obj), p.Path)
}
func (x *Exec) store(st *State, p Ptr, v Value) {
	if p.Obj == nil {
		fail("store: nil dereference")
	}
	if strings.HasPrefix(p.Obj.Name, "global:") && !x.w.inInit {
		x.Stats["global_store:"+p.Obj.Name]++
	}
	if x.storeHook != nil {
		x.storeHook(st, p)
	}
	st.Heap[p.Obj.ID] = x.setPath(x.heapGet(st, p.Obj), p.Path, v)
}

// oblige records "c must hold here"; execution continues under the assumption that it does.
func (x *Exec) oblige(st *State, fr *Frame, kind, site string, c *Term) {
	if c.IsTrue() {
		return
	}
	name := fmt.Sprintf("%s#%s@%s%s", fnName(fr.fn), kind, site, x.ctxSuffix)
	if x.specDepth > 0 {
		name = "spec:" + name
	}
	if !x.NoSafety {
		x.record(Oblig{Name: name, Cond: c, PC: st.PC(), Kind: kind, Fn: fnName(fr.fn)})
	}
	st.Assume = append(st.Assume, Implies(st.Branch(), c))
}

func (x *Exec) record(o Oblig) {
	if o.Cond.IsTrue() || o.PC.IsFalse() {
		return
	}
	o.Cond = x.skolem(o.Cond)
	k := fmt.Sprintf("%s|%d|%d", o.Name, o.Cond.id, o.PC.id)
	if x.obSeen[k] {
		return
	}
	x.obSeen[k] = true
	x.Obligs = append(x.Obligs, o)
}

func fnName(fn *ssa.Function) string {
	s := fn.String()
	s = strings.TrimPrefix(s, "github.com/alttpo/snes/")
	s = strings.ReplaceAll(s, "github.com/alttpo/snes/", "")
	s = strings.ReplaceAll(s, "github.com/alttpo/snes.", "snes.")
	return s
}

// site names an instruction by ordinal of its kind within the function (never by line)
func (x *Exec) site(fr *Frame, ins ssa.Instruction) string {
	return x.w.siteOf(fr.fn, ins)
}

// ---- calls ----
func (x *Exec) isRepo(fn *ssa.Function) bool {
	for fn.Parent() != nil {
		fn = fn.Parent()
	}
	var path string
	if fn.Pkg != nil {
		path = fn.Pkg.Pkg.Path()
	} else if fn.Object() != nil && fn.Object().Pkg() != nil {
		path = fn.Object().Pkg().Path()
	} else {
		return true // synthetic wrapper without package ($bound, $thunk of repo methods)
	}
	return strings.HasPrefix(path, "github.com/alttpo/snes") || strings.HasPrefix(path, "verif/")
}

// inlineStd: standard-library leaf functions whose SSA bodies are executed like repository code
func inlineStd(name string) bool {
	switch {
	case strings.HasPrefix(name, "(encoding/binary.littleEndian)."):
		return true
	}
	return false
}

func (x *Exec) Call(st *State, fn *ssa.Function, args []Value, bind []Value, depth int, site string) []Outcome {
	if depth > x.maxDepth {
		fail("call depth exceeded in %s", fn)
	}
	name := fn.String()
	switch name {
	case repoPath + ".readBinaryStruct":
		x.Trusted["model:snes.readBinaryStruct (reflection: exported fields, declaration order, little-endian)"]++
		return []Outcome{{Kind: oReturn, St: st, Ret: x.modelReadBinaryStruct(st, args)}}
	case repoPath + ".writeBinaryStruct":
		x.Trusted["model:snes.writeBinaryStruct (reflection: exported fields, declaration order, little-endian)"]++
		return []Outcome{{Kind: oReturn, St: st, Ret: x.modelWriteBinaryStruct(st, args)}}
	}
	if len(fn.Blocks) == 0 || (!x.isRepo(fn) && !inlineStd(name)) {
		return x.external(st, fn, args, site)
	}
	if c := x.w.contractFor(fn); c != nil && c.Modular && !(x.cur != nil && x.cur.fn == fn && depth == 0) && x.specDepth == 0 &&
		!(c.ModularSym && x.concreteLens(args)) && // "modular symbolic": the body itself is executed when its loops have concrete bounds
		!(c.Trusted && x.cur != nil && x.cur.c.Harness != "") { // harness lemmas are the proofs behind trusted summaries: they see the body
		return x.applyContract(st, fn, c, args, site)
	}
	if strings.HasPrefix(name, "verif/spec") {
		x.specDepth++
		defer func() { x.specDepth-- }()
	} else {
		x.Inlined[fnName(fn)]++
	}
	fr := &Frame{fn: fn, env: map[ssa.Value]Value{}, names: map[string]TV{}, depth: depth}
	for i, p := range fn.Params {
		fr.env[p] = args[i]
		fr.names[p.Name()] = TV{args[i], p.Type()}
	}
	for i, fv := range fn.FreeVars {
		fr.env[fv] = bind[i]
	}
	outs := x.runRegion(st.clone(), fr, fn.Blocks[0], nil, nil)
	return x.mergeReturns(st, outs)
}

// srcPhiPos: 1-based position of phi k among the source-level phis of block b (0 for the range index)
func srcPhiPos(b *ssa.BasicBlock, k int) int {
	pos := 0
	for i := 0; i <= k && i < len(b.Instrs); i++ {
		phi, ok := b.Instrs[i].(*ssa.Phi)
		if !ok {
			break
		}
		if phi.Comment == "rangeindex" {
			if i == k {
				return 0
			}
			continue
		}
		pos++
	}
	return pos
}

// concreteLens: every string / slice argument has a concrete length and every scalar argument a concrete value
func (x *Exec) concreteLens(args []Value) bool {
	for _, a := range args {
		switch v := a.(type) {
		case StrV:
			if !x.strLen(v).IsConst() {
				return false
			}
		case SliceV:
			if !v.Len.IsConst() {
				return false
			}
		case Scalar:
			if !v.T.IsConst() {
				return false
			}
		}
	}
	return true
}

// mergeReturns merges all normal outcomes of one call into one state
func (x *Exec) mergeReturns(entry *State, outs []Outcome) []Outcome {
	var normal, other []Outcome
	for _, o := range outs {
		switch o.Kind {
		case oReturn:
			normal = append(normal, o)
		case oDead:
		default:
			other = append(other, o)
		}
	}
	if len(normal) <= 1 {
		return append(normal, other...)
	}
	m, ok := x.mergeStates(entry, normal, func(o Outcome) Value { return o.Ret })
	if !ok {
		return append(normal, other...)
	}
	return append([]Outcome{m}, other...)
}

// mergeStates merges outcomes that all descend from `entry` (their Cond extends entry.Cond).
func (x *Exec) mergeStates(entry *State, outs []Outcome, val func(Outcome) Value) (res Outcome, ok bool) {
	defer func() {
		if r := recover(); r != nil {
			if mf, isMF := r.(mergeFail); isMF {
				x.Stats["mergefail:"+mf.msg]++
				ok = false
				return
			}
			panic(r)
		}
	}()
	n := len(entry.Cond)
	suffix := func(o Outcome) *Term { return And(o.St.Cond[n:]...) }
	acc := outs[len(outs)-1]
	m := &State{Heap: map[int]Value{}, Cond: append([]*Term(nil), entry.Cond...), Loops: acc.St.Loops, Facts: entry.Facts}
	asSeen := map[int64]bool{}
	for _, o := range outs {
		for _, a := range o.St.Assume {
			if !asSeen[a.id] {
				asSeen[a.id] = true
				m.Assume = append(m.Assume, a)
			}
		}
	}
	for k, v := range acc.St.Heap {
		m.Heap[k] = v
	}
	var ret Value
	if val != nil {
		ret = val(acc)
	}
	evs := acc.St.Events
	savedCtx := x.mctx
	defer func() { x.mctx = savedCtx }()
	for i := len(outs) - 2; i >= 0; i-- {
		o := outs[i]
		c := suffix(o)
		x.mctx = &mergeCtx{entry: entry.Heap, cur: o.St.Heap, acc: m.Heap}
		if val != nil {
			ret = x.mergeV(c, val(o), ret)
		}
		for k, v := range o.St.Heap {
			if old, has := m.Heap[k]; has {
				if !sameTop(v, old) {
					m.Heap[k] = x.mergeV(c, v, old)
				}
			} else {
				// object allocated on this path only
				m.Heap[k] = v
			}
		}
		for k, old := range m.Heap {
			if _, has := o.St.Heap[k]; !has {
				if ev, inEntry := entry.Heap[k]; inEntry && !sameTop(ev, old) {
					m.Heap[k] = x.mergeV(c, ev, old)
				}
			}
		}
		evs = mergeEvents(len(entry.Events), c, o.St.Events, evs)
	}
	m.Events = evs
	var sufs [][]*Term
	for _, o := range outs {
		sufs = append(sufs, o.St.Cond[n:])
	}
	m.Cond = append(m.Cond, orResolve(sufs))
	return Outcome{Kind: outs[0].Kind, St: m, Ret: ret}, true
}

// mergeCtx gives mergeV access to the heaps being merged (unification of append backings)
type mergeCtx struct {
	entry, cur, acc map[int]Value
}

func mergeEvents(n int, c *Term, a, b []Event) []Event {
	// common prefix of length n; the suffixes are merged position by position: the same call made on both
	// paths is one event whose guard is selected by the branch condition
	out := append([]Event(nil), a[:n]...)
	sa, sb := a[n:], b[n:]
	same := func(x, y Event) bool {
		if x.Callee != y.Callee || len(x.Args) != len(y.Args) {
			return false
		}
		for i := range x.Args {
			if x.Args[i] != y.Args[i] {
				return false
			}
		}
		return true
	}
	i := 0
	for ; i < len(sa) && i < len(sb) && same(sa[i], sb[i]); i++ {
		out = append(out, Event{Guard: Ite(c, sa[i].Guard, sb[i].Guard), Callee: sa[i].Callee, Args: sa[i].Args})
	}
	for _, e := range sa[i:] {
		out = append(out, Event{Guard: And(c, e.Guard), Callee: e.Callee, Args: e.Args})
	}
	for _, e := range sb[i:] {
		out = append(out, Event{Guard: And(Not(c), e.Guard), Callee: e.Callee, Args: e.Args})
	}
	return out
}

func sameTop(a, b Value) bool {
	switch av := a.(type) {
	case StructV:
		bv, ok := b.(StructV)
		return ok && len(av.F) > 0 && len(bv.F) > 0 && &av.F[0] == &bv.F[0]
	case ArrayV:
		bv, ok := b.(ArrayV)
		return ok && len(av.E) > 0 && len(bv.E) > 0 && &av.E[0] == &bv.E[0]
	case ArrayT:
		bv, ok := b.(ArrayT)
		return ok && av.T == bv.T
	case Scalar:
		bv, ok := b.(Scalar)
		return ok && av.T == bv.T
	}
	return false
}

func (x *Exec) callFuncV(st *State, f FuncV, args []Value, depth int, site string) []Outcome {
	switch fn := f.Fn.(type) {
	case *ssa.Function:
		return x.Call(st, fn, args, f.Bind, depth+1, site)
	case nil:
		return []Outcome{{Kind: oPanic, St: st, PanicS: "call of nil func at " + site}}
	}
	fail("callFuncV: %T", f.Fn)
	return nil
}

// ---- region execution ----

// runRegion executes from block b (entered from prev) until `stop` is reached (exclusive) or the
// function terminates. stop == nil means run to the end.
func (x *Exec) runRegion(st *State, fr *Frame, b *ssa.BasicBlock, prev *ssa.BasicBlock, stop *ssa.BasicBlock) []Outcome {
	return x.runRegionP(st, fr, b, prev, stop, false)
}

func (x *Exec) runRegionP(st *State, fr *Frame, b *ssa.BasicBlock, prev *ssa.BasicBlock, stop *ssa.BasicBlock, phiBound bool) []Outcome {
	for {
		if b == stop {
			return []Outcome{{Kind: oReached, St: st, Fr: fr, Prev: prev, PhiBound: phiBound}}
		}
		// phis are evaluated simultaneously
		np := skipPhis(b)
		if np > 0 && !phiBound {
			var phiv []Value
			for k := 0; k < np; k++ {
				phi := b.Instrs[k].(*ssa.Phi)
				for e, p := range b.Preds {
					if p == prev {
						phiv = append(phiv, x.val(fr, phi.Edges[e]))
						break
					}
				}
			}
			if len(phiv) != np {
				fail("phi: predecessor not found in %s block %d", fr.fn, b.Index)
			}
			for k := 0; k < np; k++ {
				phi := b.Instrs[k].(*ssa.Phi)
				fr.env[phi] = phiv[k]
				if phi.Comment != "" {
					fr.names[phi.Comment] = TV{phiv[k], phi.Type()}
				}
				// phi1, phi2, ...: the SOURCE-LEVEL loop-carried variables of the block by position (robust against
				// renaming); the compiler-generated index of a range loop is not counted — it is "rangeindex"
				if pos := srcPhiPos(b, k); pos > 0 {
					fr.names[fmt.Sprintf("phi%d", pos)] = TV{phiv[k], phi.Type()}
					if x.cur != nil && fr.top && x.cur.fn == fr.fn {
						if n := x.cur.loopOrd(b); n > 0 {
							fr.names[fmt.Sprintf("l%dphi%d", n, pos)] = TV{phiv[k], phi.Type()} // qualified by the loop ordinal (nested loops)
						}
					}
				}
			}
		}
		phiBound = false
		back := prev != nil && b.Dominates(prev)
		if x.cur != nil && fr.top && x.cur.fn == fr.fn {
			x.cur.trimLoops(st, b)
			if lc := x.cur.loopAt(b); lc != nil {
				if back {
					x.cur.backEdge(x, st, fr, b, lc)
					return []Outcome{{Kind: oDead, St: st}}
				}
				x.cur.enterLoop(x, st, fr, b, lc)
				back = false
			}
		}
		if back {
			// unrolled back edge
			if fr.iters == nil {
				fr.iters = map[*ssa.BasicBlock]int{}
			}
			n := fr.iter(b) + 1
			fr.iters[b] = n
			if n > x.maxUnroll {
				fail("loop in %s not bounded after %d iterations (needs an invariant)", fr.fn, n)
			}
		}
		i := np
		for ; i < len(b.Instrs); i++ {
			ins := b.Instrs[i]
			switch in := ins.(type) {
			case *ssa.If:
				c := x.val(fr, in.Cond).(Scalar).T
				if c.IsTrue() {
					prev, b = b, b.Succs[0]
					goto next
				}
				if c.IsFalse() {
					prev, b = b, b.Succs[1]
					goto next
				}
				return x.branch(st, fr, b, c, stop)
			case *ssa.Jump:
				prev, b = b, b.Succs[0]
				goto next
			case *ssa.Return:
				var r Value
				switch len(in.Results) {
				case 0:
					r = TupleV{}
				case 1:
					r = x.val(fr, in.Results[0])
				default:
					t := TupleV{}
					for _, rv := range in.Results {
						t.E = append(t.E, x.val(fr, rv))
					}
					r = t
				}
				return []Outcome{{Kind: oReturn, St: st, Ret: r, Fr: fr}}
			case *ssa.Panic:
				return []Outcome{{Kind: oPanic, St: st, Explicit: true, PanicS: "explicit panic in " + fnName(fr.fn) + " @" + x.site(fr, in), PanicV: x.val(fr, in.X), Fr: fr}}
			case *ssa.Call:
				outs := x.doCall(st, fr, in)
				if len(outs) == 1 && outs[0].Kind == oReturn {
					st = outs[0].St
					fr.env[in] = outs[0].Ret
					continue
				}
				var res []Outcome
				var conts []Outcome
				for _, o := range outs {
					if o.Kind != oReturn {
						res = append(res, o)
					} else {
						conts = append(conts, o)
					}
				}
				for _, o := range conts {
					nf := fr.child()
					nf.env[in] = o.Ret
					res = append(res, x.runFrom(o.St, nf, b, i+1, stop)...)
				}
				return res
			default:
				if out := x.step(st, fr, ins); out != nil {
					return []Outcome{*out}
				}
			}
		}
		fail("fell off block %d in %s", b.Index, fr.fn)
	next:
	}
}

// runFrom continues in the middle of a block
func (x *Exec) runFrom(st *State, fr *Frame, b *ssa.BasicBlock, i int, stop *ssa.BasicBlock) []Outcome {
	for ; i < len(b.Instrs); i++ {
		ins := b.Instrs[i]
		switch in := ins.(type) {
		case *ssa.If:
			c := x.val(fr, in.Cond).(Scalar).T
			if c.IsTrue() {
				return x.runRegion(st, fr, b.Succs[0], b, stop)
			}
			if c.IsFalse() {
				return x.runRegion(st, fr, b.Succs[1], b, stop)
			}
			return x.branch(st, fr, b, c, stop)
		case *ssa.Jump:
			return x.runRegion(st, fr, b.Succs[0], b, stop)
		case *ssa.Return, *ssa.Panic:
			// delegate to runRegion's handling by executing a one-instruction tail
			return x.tail(st, fr, b, i)
		case *ssa.Call:
			outs := x.doCall(st, fr, in)
			if len(outs) == 1 && outs[0].Kind == oReturn {
				st = outs[0].St
				fr.env[in] = outs[0].Ret
				continue
			}
			var res []Outcome
			for _, o := range outs {
				if o.Kind != oReturn {
					res = append(res, o)
					continue
				}
				nf := fr.child()
				nf.env[in] = o.Ret
				res = append(res, x.runFrom(o.St, nf, b, i+1, stop)...)
			}
			return res
		default:
			if out := x.step(st, fr, ins); out != nil {
				return []Outcome{*out}
			}
		}
	}
	fail("fell off block %d in %s", b.Index, fr.fn)
	return nil
}

func (x *Exec) tail(st *State, fr *Frame, b *ssa.BasicBlock, i int) []Outcome {
	switch in := b.Instrs[i].(type) {
	case *ssa.Return:
		var r Value
		switch len(in.Results) {
		case 0:
			r = TupleV{}
		case 1:
			r = x.val(fr, in.Results[0])
		default:
			t := TupleV{}
			for _, rv := range in.Results {
				t.E = append(t.E, x.val(fr, rv))
			}
			r = t
		}
		return []Outcome{{Kind: oReturn, St: st, Ret: r, Fr: fr}}
	case *ssa.Panic:
		return []Outcome{{Kind: oPanic, St: st, Explicit: true, PanicS: "explicit panic in " + fnName(fr.fn) + " @" + x.site(fr, in), PanicV: x.val(fr, in.X), Fr: fr}}
	}
	fail("tail: unexpected instruction")
	return nil
}

// branch executes both arms of a conditional up to the immediate post-dominator and merges
func (x *Exec) branch(st *State, fr *Frame, b *ssa.BasicBlock, c *Term, stop *ssa.BasicBlock) []Outcome {
	j := x.w.ipdom(fr.fn, b)
	inner := j
	if stop != nil && !(j != nil && j != stop && x.w.postDominates(fr.fn, stop, j)) {
		inner = stop
	}
	var outs []Outcome
	if st.Facts[c.id] {
		return x.runRegion(st, fr, b.Succs[0], b, stop)
	}
	if st.Facts[Not(c).id] {
		return x.runRegion(st, fr, b.Succs[1], b, stop)
	}
	pcT := And(append(append([]*Term(nil), st.Cond...), c)...)
	pcF := And(append(append([]*Term(nil), st.Cond...), Not(c))...)
	// a composite condition (e.g. the value of `a && b` in a switch case) hides contradictions from the syntactic
	// test: ask a solver whether an arm is feasible at all, so that an impossible "no case matched" path is not
	// carried along (it would make every later length and index symbolic)
	if compositeCond(c) && len(st.Cond) > 0 {
		if !pcT.IsFalse() && x.implied(st, Not(c)) {
			pcT = False()
		}
		if !pcF.IsFalse() && x.implied(st, c) {
			pcF = False()
		}
	}
	if !pcT.IsFalse() {
		s1 := st.clone()
		s1.Cond = append(s1.Cond, c)
		outs = append(outs, x.runRegion(s1, fr.child(), b.Succs[0], b, inner)...)
	}
	if !pcF.IsFalse() {
		s2 := st.clone()
		s2.Cond = append(s2.Cond, Not(c))
		outs = append(outs, x.runRegion(s2, fr.child(), b.Succs[1], b, inner)...)
	}
	var reached, other []Outcome
	for _, o := range outs {
		if o.Kind == oReached && inner != nil {
			reached = append(reached, o)
		} else {
			other = append(other, o)
		}
	}
	if len(reached) == 0 {
		return other
	}
	if inner == stop {
		// our caller merges at stop
		if len(reached) > 1 {
			if m, ok := x.joinAt(st, fr, inner, reached); ok {
				return append(other, m)
			}
		}
		return append(other, reached...)
	}
	if len(reached) > 1 {
		if m, ok := x.joinAt(st, fr, inner, reached); ok {
			reached = []Outcome{m}
		}
	}
	for _, r := range reached {
		other = append(other, x.runRegionP(r.St, r.Fr, inner, r.Prev, stop, r.PhiBound)...)
	}
	return other
}

// compositeCond: the condition is not a single comparison (or its negation)
func compositeCond(c *Term) bool {
	if c.Op == "not" {
		c = c.Args[0]
	}
	switch c.Op {
	case "and", "or", "ite", "not":
		return true
	}
	return false
}

// joinAt merges outcomes that reached block j: phi inputs are selected per outcome, then merged.
// The merged outcome carries a synthetic predecessor marker: its frame already holds the phi values.
func (x *Exec) joinAt(entry *State, fr *Frame, j *ssa.BasicBlock, outs []Outcome) (Outcome, bool) {
	nphi := skipPhis(j)
	if nphi == 0 {
		m, ok := x.mergeStates(entry, outs, nil)
		if !ok {
			return Outcome{}, false
		}
		nf := fr.child()
		// names defined in the arms: merge those present everywhere
		x.mergeNames(entry, nf, outs)
		return Outcome{Kind: oReached, St: m.St, Fr: nf, Prev: outs[0].Prev}, true
	}
	// phis present: evaluate per outcome, merge as a tuple
	vals := func(o Outcome) Value {
		t := TupleV{}
		for k := 0; k < nphi; k++ {
			phi := j.Instrs[k].(*ssa.Phi)
			found := false
			if o.PhiBound {
				t.E = append(t.E, x.val(o.Fr, phi))
				found = true
			}
			for e, p := range j.Preds {
				if found {
					break
				}
				if p == o.Prev {
					t.E = append(t.E, x.val(o.Fr, phi.Edges[e]))
					found = true
					break
				}
			}
			if !found {
				fail("joinAt: predecessor not found")
			}
		}
		return t
	}
	m, ok := x.mergeStates(entry, outs, vals)
	if !ok {
		return Outcome{}, false
	}
	nf := fr.child()
	x.mergeNames(entry, nf, outs)
	// bind through a pseudo-edge: we pre-set the phi values and mark them as done by using a wrapper block entry
	tv := m.Ret.(TupleV)
	for k := 0; k < nphi; k++ {
		phi := j.Instrs[k].(*ssa.Phi)
		nf.env[phi] = tv.E[k]
		if phi.Comment != "" {
			nf.names[phi.Comment] = TV{tv.E[k], phi.Type()}
		}
	}
	return Outcome{Kind: oReached, St: m.St, Fr: nf, Prev: outs[0].Prev, PhiBound: true}, true
}

func (x *Exec) mergeNames(entry *State, nf *Frame, outs []Outcome) {
	// source-level names assigned in the arms (DebugRef) are merged when every arm has a value
	n := len(entry.Cond)
	all := map[string]bool{}
	for _, o := range outs {
		for g := o.Fr; g != nil && g != nf.parent; g = g.parent {
			for k := range g.names {
				all[k] = true
			}
		}
	}
	for k := range all {
		var acc Value
		var accT types.Type
		ok := true
		for i := len(outs) - 1; i >= 0; i-- {
			tv, has := outs[i].Fr.name(k)
			if !has {
				ok = false
				break
			}
			v := tv.V
			if acc == nil {
				acc = v
				accT = tv.T
				continue
			}
			func() {
				defer func() {
					if r := recover(); r != nil {
						if _, isEE := r.(engineErr); isEE {
							panic(r)
						}
						ok = false // same source name, different variables (scopes): not merged
					}
				}()
				if accT != nil && tv.T != nil && !types.Identical(accT, tv.T) {
					ok = false
					return
				}
				acc = x.mergeV(And(outs[i].St.Cond[n:]...), v, acc)
			}()
			if !ok {
				break
			}
		}
		if ok && acc != nil {
			nf.names[k] = TV{acc, accT}
		}
	}
}

func skipPhis(b *ssa.BasicBlock) int {
	i := 0
	for i < len(b.Instrs) {
		if _, ok := b.Instrs[i].(*ssa.Phi); !ok {
			break
		}
		i++
	}
	return i
}

// step executes one non-control instruction; a non-nil result is a terminal outcome (runtime panic)
func (x *Exec) step(st *State, fr *Frame, ins ssa.Instruction) *Outcome {
	rtPanic := func(kind string, c *Term) *Outcome {
		// c: condition under which the instruction is safe
		if c.IsTrue() {
			return nil
		}
		if x.ImplicitAsPanic {
			// handled by callers that fork; not used in this engine version
		}
		x.oblige(st, fr, kind, x.site(fr, ins), c)
		if c.IsFalse() {
			return &Outcome{Kind: oPanic, St: st, PanicS: kind + " in " + fnName(fr.fn) + " @" + x.site(fr, ins), Fr: fr}
		}
		return nil
	}
	switch in := ins.(type) {
	case *ssa.DebugRef:
		if id, ok := in.Expr.(interface{ String() string }); ok && !in.IsAddr {
			_ = id
		}
		if obj := in.Object(); obj != nil {
			if v, ok := obj.(*types.Var); ok && !v.IsField() {
				if val, has := fr.get(in.X); has {
					if in.IsAddr {
						fr.names["&"+v.Name()] = TV{val, in.X.Type()}
					} else {
						fr.names[v.Name()] = TV{val, in.X.Type()}
					}
				} else if c, isC := in.X.(*ssa.Const); isC {
					fr.names[v.Name()] = TV{x.constVal(c), c.Type()}
				}
			}
		}
	case *ssa.Alloc:
		t := in.Type().(*types.Pointer).Elem()
		o := x.newObj(t, in.Comment)
		st.Heap[o.ID] = x.zero(t)
		fr.env[in] = Ptr{Obj: o}
		if in.Comment != "" {
			fr.names["&"+in.Comment] = TV{Ptr{Obj: o}, in.Type()}
		}
	case *ssa.FieldAddr:
		p := x.val(fr, in.X).(Ptr)
		if p.Obj == nil {
			return rtPanicNil(x, st, fr, ins)
		}
		fr.env[in] = Ptr{Obj: p.Obj, Path: append(append([]PathElem(nil), p.Path...), PathElem{Field: in.Field})}
	case *ssa.Field:
		fr.env[in] = x.val(fr, in.X).(StructV).F[in.Field]
	case *ssa.IndexAddr:
		idx := x.toIdx(x.val(fr, in.Index), in.Index.Type())
		switch xv := x.val(fr, in.X).(type) {
		case Ptr:
			if xv.Obj == nil {
				return rtPanicNil(x, st, fr, ins)
			}
			at := in.X.Type().Underlying().(*types.Pointer).Elem().Underlying().(*types.Array)
			if o := rtPanic("bounds", cmp("bvult", idx, Const(64, uint64(at.Len())))); o != nil {
				return o
			}
			fr.env[in] = Ptr{Obj: xv.Obj, Path: append(append([]PathElem(nil), xv.Path...), PathElem{Field: -1, Idx: idx})}
		case SliceV:
			if o := rtPanic("bounds", cmp("bvult", idx, xv.Len)); o != nil {
				return o
			}
			if xv.Obj == nil {
				fail("IndexAddr on nil slice with in-range index in %s", fr.fn)
			}
			fr.env[in] = Ptr{Obj: xv.Obj, Path: append(append([]PathElem(nil), xv.Base...), PathElem{Field: -1, Idx: bin("bvadd", xv.Off, idx)})}
		default:
			fail("IndexAddr on %T", xv)
		}
	case *ssa.Index:
		idx := x.toIdx(x.val(fr, in.Index), in.Index.Type())
		switch xv := x.val(fr, in.X).(type) {
		case ArrayV:
			if o := rtPanic("bounds", cmp("bvult", idx, Const(64, uint64(len(xv.E))))); o != nil {
				return o
			}
			fr.env[in] = x.getPath(xv, []PathElem{{Field: -1, Idx: idx}})
		case StrV:
			n := x.strLen(xv)
			if o := rtPanic("bounds", cmp("bvult", idx, n)); o != nil {
				return o
			}
			fr.env[in] = Scalar{x.strByte(xv, idx)}
		default:
			fail("Index on %T", xv)
		}
	case *ssa.UnOp:
		xv := x.val(fr, in.X)
		switch in.Op {
		case token.MUL:
			p := xv.(Ptr)
			if p.Obj == nil {
				return rtPanicNil(x, st, fr, ins)
			}
			// slice-typed leaves read out of a lifted container enter the frame as slices over a fresh backing
			fr.env[in] = x.materialize(st, x.load(st, p))
		case token.NOT:
			fr.env[in] = Scalar{Not(xv.(Scalar).T)}
		case token.SUB:
			fr.env[in] = Scalar{BvNeg(xv.(Scalar).T)}
		case token.XOR:
			fr.env[in] = Scalar{BvNot(xv.(Scalar).T)}
		default:
			fail("UnOp %s", in.Op)
		}
	case *ssa.Store:
		p := x.val(fr, in.Addr).(Ptr)
		if p.Obj == nil {
			return rtPanicNil(x, st, fr, ins)
		}
		x.store(st, p, x.val(fr, in.Val))
	case *ssa.BinOp:
		v, o := x.binop(st, fr, in)
		if o != nil {
			return o
		}
		fr.env[in] = v
	case *ssa.Convert:
		fr.env[in] = x.convert(st, x.val(fr, in.X), in.X.Type(), in.Type())
	case *ssa.ChangeType:
		fr.env[in] = x.val(fr, in.X)
	case *ssa.MakeInterface:
		fr.env[in] = x.makeIface(in.X.Type(), x.val(fr, in.X))
	case *ssa.ChangeInterface:
		fr.env[in] = x.val(fr, in.X)
	case *ssa.MakeClosure:
		var bs []Value
		for _, bnd := range in.Bindings {
			bs = append(bs, x.val(fr, bnd))
		}
		fr.env[in] = FuncV{Fn: in.Fn.(*ssa.Function), Bind: bs}
	case *ssa.Extract:
		fr.env[in] = x.val(fr, in.Tuple).(TupleV).E[in.Index]
	case *ssa.Slice:
		v, o := x.slice(st, fr, in)
		if o != nil {
			return o
		}
		fr.env[in] = v
	case *ssa.MakeSlice:
		n := x.toIdx(x.val(fr, in.Len), in.Len.Type())
		c := x.toIdx(x.val(fr, in.Cap), in.Cap.Type())
		if o := rtPanic("makeslice", And(cmp("bvule", n, c), cmp("bvult", c, Const(64, 1<<40)))); o != nil {
			return o
		}
		et := in.Type().Underlying().(*types.Slice).Elem()
		fr.env[in] = x.newSlice(st, et, n, c, "make")
	case *ssa.TypeAssert:
		fr.env[in] = x.typeAssert(st, fr, in)
	case *ssa.Lookup:
		fr.env[in] = x.lookup(st, fr, in)
	case *ssa.MakeMap:
		mt := in.Type().Underlying().(*types.Map)
		o := x.newObj(in.Type(), "map")
		st.Heap[o.ID] = x.emptyMap(mt)
		fr.env[in] = MapV{Obj: o}
	case *ssa.MapUpdate:
		mv := x.val(fr, in.Map).(MapV)
		if mv.Obj == nil {
			return rtPanic("nilmap", False())
		}
		x.mapUpdate(st, mv, x.val(fr, in.Key), x.val(fr, in.Value))
	case *ssa.Range:
		fr.env[in] = x.rangeInit(st, fr, in)
	case *ssa.Next:
		fr.env[in] = x.rangeNext(st, fr, in)
	default:
		fail("unsupported instruction %T in %s: %s", ins, fr.fn, ins)
	}
	return nil
}

func rtPanicNil(x *Exec, st *State, fr *Frame, ins ssa.Instruction) *Outcome {
	x.oblige(st, fr, "nil", x.site(fr, ins), False())
	return &Outcome{Kind: oPanic, St: st, PanicS: "nil dereference in " + fnName(fr.fn) + " @" + x.site(fr, ins), Fr: fr}
}

func (x *Exec) toIdx(v Value, t types.Type) *Term {
	s := v.(Scalar).T
	w, signed, _ := bitsOf(t)
	if w == 64 {
		return s
	}
	if signed {
		return SExt(s, 64)
	}
	return ZExt(s, 64)
}

func (x *Exec) doCall(st *State, fr *Frame, in *ssa.Call) []Outcome {
	c := in.Call
	site := fnName(fr.fn) + ":" + x.site(fr, in)
	if x.cur != nil && fr.top && x.cur.fn == fr.fn && x.cur.c.SiteAsserts != nil {
		if as, ok := x.cur.c.SiteAsserts[x.site(fr, in)]; ok {
			e := x.cur.env(x, st, fr)
			for i, a := range as {
				x.record(Oblig{Name: fmt.Sprintf("%s#at.%s.assert%d", fnName(fr.fn), x.site(fr, in), i+1), Cond: e.Formula(a), PC: st.PC(), Kind: "assert", Fn: fnName(fr.fn)})
			}
			// vacuity guard: some path reaches this site with a satisfiable path condition
			x.record(Oblig{Name: fmt.Sprintf("%s#at.%s.cover", fnName(fr.fn), x.site(fr, in)), Cond: False(), PC: st.PC(), Kind: "cover", Fn: fnName(fr.fn)})
			x.cur.sitesSeen[x.site(fr, in)] = true
		}
	}
	var args []Value
	for _, a := range c.Args {
		args = append(args, x.val(fr, a))
	}
	if c.IsInvoke() {
		return x.invoke(st, fr, x.val(fr, c.Value), c.Method, args, site)
	}
	if b, ok := c.Value.(*ssa.Builtin); ok {
		return x.builtin(st, fr, b, args, in)
	}
	if fn := c.StaticCallee(); fn != nil {
		if _, isClosure := c.Value.(*ssa.MakeClosure); isClosure {
			return x.callFuncV(st, x.val(fr, c.Value).(FuncV), args, fr.depth, site)
		}
		return x.Call(st, fn, args, nil, fr.depth+1, site)
	}
	switch fv := x.val(fr, c.Value).(type) {
	case FuncV:
		return x.callFuncV(st, fv, args, fr.depth, site)
	case RefV:
		return x.unknownCall(st, "func", fv.T, "call", args, c.Signature().Results(), site)
	}
	fail("doCall: callee %T", x.val(fr, c.Value))
	return nil
}

// invoke dispatches an interface method call
func (x *Exec) invoke(st *State, fr *Frame, recv Value, m *types.Func, args []Value, site string) []Outcome {
	switch rv := recv.(type) {
	case IfaceV:
		if rv.Unk != nil {
			return x.invoke(st, fr, RefV{rv.Unk}, m, args, site)
		}
		if rv.Dyn == nil {
			x.oblige(st, fr, "nil", site, False())
			return []Outcome{{Kind: oPanic, St: st, PanicS: "invoke on nil interface at " + site}}
		}
		fn := x.w.prog.LookupMethod(rv.Dyn, m.Pkg(), m.Name())
		if fn == nil {
			fail("invoke: method %s not found on %s", m.Name(), rv.Dyn)
		}
		return x.Call(st, fn, append([]Value{rv.V}, args...), nil, fr.depth+1, site)
	case IfaceM:
		var res []Outcome
		var rets []Outcome
		for _, k := range rv.Cases {
			s := st.clone()
			s.Cond = append(s.Cond, k.C)
			if And(s.Cond...).IsFalse() {
				continue
			}
			for _, o := range x.invoke(s, fr, k.V, m, args, site) {
				if o.Kind == oReturn {
					rets = append(rets, o)
				} else {
					res = append(res, o)
				}
			}
		}
		if len(rets) > 1 {
			if mo, ok := x.mergeStates(st, rets, func(o Outcome) Value { return o.Ret }); ok {
				mo.Kind = oReturn
				return append([]Outcome{mo}, res...)
			}
		}
		return append(rets, res...)
	case RefV:
		nz := Not(Eq(rv.T, Const(32, 0)))
		x.oblige(st, fr, "nil", site, nz)
		return x.unknownCall(st, typeString(m.Type().(*types.Signature).Recv().Type()), rv.T, m.Name(), args, m.Type().(*types.Signature).Results(), site)
	}
	fail("invoke on %T", recv)
	return nil
}

func typeString(t types.Type) string {
	s := t.String()
	s = strings.ReplaceAll(s, "github.com/alttpo/snes/", "")
	return s
}

// unknownCall models a dynamically dispatched call whose target is not statically known:
// a trusted event in the ghost log; results are uninterpreted functions of (receiver, args, call index).
func (x *Exec) unknownCall(st *State, recvT string, recv *Term, method string, args []Value, results *types.Tuple, site string) []Outcome {
	name := recvT + "." + method
	x.Trusted["dynamic:"+name]++
	var ts []*Term
	ts = append(ts, recv)
	for _, a := range args {
		switch av := a.(type) {
		case Scalar:
			ts = append(ts, av.T)
		case StrV:
			ts = append(ts, av.T)
		case SliceV:
			ts = append(ts, av.Off, av.Len)
		default:
			ts = append(ts, x.refOf(a))
		}
	}
	st.Events = append(st.Events, Event{Guard: True(), Callee: name, Args: ts})
	pure := x.w.pureMethods[name]
	mkRes := func(t types.Type, k int) Value {
		s, ok := leafSort(t)
		if !ok {
			fail("unknownCall %s: result type %s not modelled", name, t)
		}
		if pure {
			// a pure function of receiver and scalar arguments
			var as []*Term
			for _, a := range ts {
				as = append(as, a)
			}
			return x.leafValue(Apply(fmt.Sprintf("%s#%d", name, k), s, as...), t)
		}
		return x.leafValue(x.freshVar(name+"_ret", s), t)
	}
	var ret Value
	switch results.Len() {
	case 0:
		ret = TupleV{}
	case 1:
		ret = mkRes(results.At(0).Type(), 0)
	default:
		t := TupleV{}
		for i := 0; i < results.Len(); i++ {
			t.E = append(t.E, mkRes(results.At(i).Type(), i))
		}
		ret = t
	}
	return []Outcome{{Kind: oReturn, St: st, Ret: ret}}
}

func (x *Exec) newSlice(st *State, et types.Type, n, c *Term, name string) SliceV {
	o := x.newObj(types.NewArray(et, 1<<40), name+"#backing")
	st.Heap[o.ID] = x.zeroBacking(et)
	return SliceV{Obj: o, Off: Const(64, 0), Len: n, Cap: c}
}

func (x *Exec) zeroBacking(et types.Type) Value {
	if s, ok := leafSort(et); ok {
		var z *Term
		switch s.Kind {
		case 0:
			z = False()
		case 1:
			z = Const(s.W, 0)
		default:
			z = StrLit("")
		}
		return ArrayT{T: ConstArr(ArrS(BV(64), s), z), Len: 1 << 40, Elem: et}
	}
	return ArrayS{L: x.liftZero(et, BV(64)), Len: 1 << 40, Elem: et}
}

func (x *Exec) symBacking(et types.Type, name string) Value {
	if s, ok := leafSort(et); ok {
		return ArrayT{T: x.freshVar(name+"_arr", ArrS(BV(64), s)), Len: 1 << 40, Elem: et}
	}
	return ArrayS{L: x.liftSym(et, BV(64), name), Len: 1 << 40, Elem: et}
}

func (x *Exec) slice(st *State, fr *Frame, in *ssa.Slice) (Value, *Outcome) {
	var lo, hi *Term
	if in.Low != nil {
		lo = x.toIdx(x.val(fr, in.Low), in.Low.Type())
	} else {
		lo = Const(64, 0)
	}
	if in.Max != nil {
		fail("3-index slice not modelled")
	}
	switch xv := x.val(fr, in.X).(type) {
	case Ptr: // pointer to array
		if xv.Obj == nil {
			return nil, rtPanicNil(x, st, fr, in)
		}
		at := in.X.Type().Underlying().(*types.Pointer).Elem().Underlying().(*types.Array)
		n := Const(64, uint64(at.Len()))
		if in.High != nil {
			hi = x.toIdx(x.val(fr, in.High), in.High.Type())
		} else {
			hi = n
		}
		x.oblige(st, fr, "slicebounds", x.site(fr, in), And(cmp("bvule", lo, hi), cmp("bvule", hi, n)))
		return SliceV{Obj: xv.Obj, Base: xv.Path, Off: lo, Len: bin("bvsub", hi, lo), Cap: bin("bvsub", n, lo)}, nil
	case SliceV:
		if in.High != nil {
			hi = x.toIdx(x.val(fr, in.High), in.High.Type())
		} else {
			hi = xv.Len
		}
		x.oblige(st, fr, "slicebounds", x.site(fr, in), And(cmp("bvule", lo, hi), cmp("bvule", hi, xv.Cap)))
		return SliceV{Obj: xv.Obj, Base: xv.Base, Off: bin("bvadd", xv.Off, lo), Len: bin("bvsub", hi, lo), Cap: bin("bvsub", xv.Cap, lo), Nil: xv.Nil}, nil
	case StrV:
		fail("string slicing not modelled")
	}
	fail("slice: unsupported operand %T", x.val(fr, in.X))
	return nil, nil
}

func (x *Exec) convert(st *State, v Value, from, to types.Type) Value {
	fw, fs, fok := bitsOf(from)
	tw, _, tok := bitsOf(to)
	if fok && tok && !isBool(from) {
		s := v.(Scalar).T
		switch {
		case tw == fw:
			return v
		case tw < fw:
			return Scalar{Extract(tw-1, 0, s)}
		case fs:
			return Scalar{SExt(s, tw)}
		default:
			return Scalar{ZExt(s, tw)}
		}
	}
	// string <-> []byte
	if isString(from) {
		if sl, ok := to.Underlying().(*types.Slice); ok {
			if w, _, ok2 := bitsOf(sl.Elem()); ok2 && w == 8 {
				sv := v.(StrV)
				o := x.newObj(types.NewArray(sl.Elem(), 1<<40), "bytes(str)")
				st.Heap[o.ID] = ArrayT{T: x.strBytes(sv), Len: 1 << 40, Elem: sl.Elem()}
				n := x.strLen(sv)
				return SliceV{Obj: o, Off: Const(64, 0), Len: n, Cap: n}
			}
		}
	}
	if isString(to) {
		if _, ok := from.Underlying().(*types.Slice); ok {
			// string(bytes): opaque string determined by the bytes (not modelled further)
			return StrV{x.freshVar("str_of_bytes", StrS)}
		}
	}
	if _, ok := to.Underlying().(*types.Pointer); ok {
		return v
	}
	if b, ok := to.Underlying().(*types.Basic); ok && b.Kind() == types.UnsafePointer {
		return v
	}
	fail("convert %s -> %s not modelled", from, to)
	return nil
}

// ---- strings ----
func (x *Exec) strLen(s StrV) *Term {
	if s.T.Op == "strlit" {
		return Const(64, uint64(len(s.T.Name)))
	}
	if s.T.Op == "ite" {
		return Ite(s.T.Args[0], x.strLen(StrV{s.T.Args[1]}), x.strLen(StrV{s.T.Args[2]}))
	}
	return Apply("strlen", BV(64), s.T)
}
func (x *Exec) strBytes(s StrV) *Term {
	if s.T.Op == "strlit" {
		arr := ConstArr(ArrS(BV(64), BV(8)), Const(8, 0))
		for i := 0; i < len(s.T.Name); i++ {
			arr = Store(arr, Const(64, uint64(i)), Const(8, uint64(s.T.Name[i])))
		}
		return arr
	}
	return Apply("strbytes", ArrS(BV(64), BV(8)), s.T)
}
func (x *Exec) strByte(s StrV, idx *Term) *Term {
	if s.T.Op == "strlit" && idx.IsConst() && idx.Val < uint64(len(s.T.Name)) {
		return Const(8, uint64(s.T.Name[idx.Val]))
	}
	if s.T.Op == "strlit" && len(s.T.Name) <= 64 {
		var r *Term = Const(8, 0)
		for k := len(s.T.Name) - 1; k >= 0; k-- {
			r = Ite(Eq(idx, Const(64, uint64(k))), Const(8, uint64(s.T.Name[k])), r)
		}
		return r
	}
	return Select(x.strBytes(s), idx)
}

func (x *Exec) binop(st *State, fr *Frame, in *ssa.BinOp) (Value, *Outcome) {
	a := x.val(fr, in.X)
	b := x.val(fr, in.Y)
	t := in.X.Type()
	if in.Op == token.EQL || in.Op == token.NEQ {
		e := x.equal(a, b)
		if in.Op == token.NEQ {
			e = Not(e)
		}
		return Scalar{e}, nil
	}
	if sa, ok := a.(StrV); ok {
		if in.Op == token.ADD {
			sb := b.(StrV)
			if sa.T.Op == "strlit" && sb.T.Op == "strlit" {
				return StrV{StrLit(sa.T.Name + sb.T.Name)}, nil
			}
			return StrV{Apply("strcat", StrS, sa.T, sb.T)}, nil
		}
		fail("string operator %s not modelled", in.Op)
	}
	x1 := a.(Scalar).T
	y1 := b.(Scalar).T
	_, signed, _ := bitsOf(t)
	switch in.Op {
	case token.ADD:
		return Scalar{bin("bvadd", x1, y1)}, nil
	case token.SUB:
		return Scalar{bin("bvsub", x1, y1)}, nil
	case token.MUL:
		return Scalar{bin("bvmul", x1, y1)}, nil
	case token.QUO, token.REM:
		nz := Not(Eq(y1, Const(y1.S.W, 0)))
		x.oblige(st, fr, "divzero", x.site(fr, in), nz)
		if nz.IsFalse() {
			return nil, &Outcome{Kind: oPanic, St: st, PanicS: "division by zero", Fr: fr}
		}
		op := map[token.Token][2]string{token.QUO: {"bvudiv", "bvsdiv"}, token.REM: {"bvurem", "bvsrem"}}[in.Op]
		if signed {
			return Scalar{bin(op[1], x1, y1)}, nil
		}
		return Scalar{bin(op[0], x1, y1)}, nil
	case token.AND:
		if x1.S == BoolS {
			return Scalar{And(x1, y1)}, nil
		}
		return Scalar{bin("bvand", x1, y1)}, nil
	case token.OR:
		if x1.S == BoolS {
			return Scalar{Or(x1, y1)}, nil
		}
		return Scalar{bin("bvor", x1, y1)}, nil
	case token.XOR:
		return Scalar{bin("bvxor", x1, y1)}, nil
	case token.AND_NOT:
		return Scalar{bin("bvand", x1, BvNot(y1))}, nil
	case token.SHL, token.SHR:
		return Scalar{shiftTerm(in.Op == token.SHL, signed, x1, y1, in.Y.Type())}, nil
	case token.LSS, token.LEQ, token.GTR, token.GEQ:
		return Scalar{cmpTerm(in.Op, signed, x1, y1)}, nil
	}
	fail("binop %s", in.Op)
	return nil, nil
}

func cmpTerm(op token.Token, signed bool, x1, y1 *Term) *Term {
	u, s := "bvult", "bvslt"
	l, r := x1, y1
	switch op {
	case token.LEQ:
		u, s = "bvule", "bvsle"
	case token.GTR:
		l, r = y1, x1
	case token.GEQ:
		u, s = "bvule", "bvsle"
		l, r = y1, x1
	}
	if signed {
		return cmp(s, l, r)
	}
	return cmp(u, l, r)
}

// shiftTerm implements Go's shift semantics (count >= width gives 0 or sign fill; the count is unsigned
// or, if signed, assumed non-negative — a negative count panics in Go and is reported by the caller).
func shiftTerm(left, signed bool, x1, y1 *Term, yt types.Type) *Term {
	w := x1.S.W
	var cnt *Term
	if y1.S.W < w {
		cnt = ZExt(y1, w)
	} else if y1.S.W > w {
		big := cmp("bvule", Const(y1.S.W, uint64(w)), y1)
		cnt = Ite(big, Const(w, uint64(w)), Extract(w-1, 0, y1))
	} else {
		cnt = y1
	}
	if left {
		return bin("bvshl", x1, cnt)
	}
	if signed {
		return bin("bvashr", x1, cnt)
	}
	return bin("bvlshr", x1, cnt)
}

func (x *Exec) equal(a, b Value) *Term {
	switch av := a.(type) {
	case Scalar:
		return Eq(av.T, b.(Scalar).T)
	case StrV:
		return Eq(av.T, b.(StrV).T)
	case RefV:
		return Eq(av.T, x.refOf(b))
	case IfaceM:
		if bv, ok := b.(IfaceV); ok && bv.Dyn == nil {
			return ifaceIsNil(av)
		}
		return Eq(x.refOf(av), x.refOf(b))
	case IfaceV:
		switch bv := b.(type) {
		case Ptr:
			// interface holding a pointer compared with a pointer of that type
			if av.Dyn == nil {
				return BoolC(bv.Obj == nil)
			}
			if ap, ok := av.V.(Ptr); ok {
				return BoolC(ap.Obj == bv.Obj && samePath(ap.Path, bv.Path))
			}
			return False()
		case RefV:
			return Eq(x.refOf(av), bv.T)
		case IfaceM:
			if av.Dyn == nil {
				return ifaceIsNil(bv)
			}
			return Eq(x.refOf(av), x.refOf(bv))
		case IfaceV:
			if av.Unk != nil || bv.Unk != nil {
				return Eq(x.refOf(av), x.refOf(bv))
			}
			if av.Dyn == nil || bv.Dyn == nil {
				return BoolC(av.Dyn == nil && bv.Dyn == nil)
			}
			return Eq(x.refOf(av), x.refOf(bv))
		}
	case SliceV:
		bv := b.(SliceV)
		if bv.Obj == nil && bv.Nil == nil {
			return sliceNil(av)
		}
		if av.Obj == nil && av.Nil == nil {
			return sliceNil(bv)
		}
	case SeqV:
		// slice contents read out of a lifted container: equal when the lengths and the content arrays agree
		// (sufficient, and what "the record is unchanged" means)
		if bv, ok := b.(SeqV); ok && av.Data.S == bv.Data.S {
			return And(Eq(av.Len, bv.Len), Eq(av.Data, bv.Data))
		}
	case Ptr:
		bp := b.(Ptr)
		return BoolC(av.Obj == bp.Obj && samePath(av.Path, bp.Path))
	case FuncV:
		if bf, ok := b.(FuncV); ok && bf.Fn == nil {
			return BoolC(av.Fn == nil)
		}
		if av.Fn == nil {
			if bf, ok := b.(FuncV); ok {
				return BoolC(bf.Fn == nil)
			}
			return Eq(Const(32, 0), x.refOf(b))
		}
	case MapV:
		bm := b.(MapV)
		if bm.Obj == nil {
			return BoolC(av.Obj == nil)
		}
		if av.Obj == nil {
			return BoolC(bm.Obj == nil)
		}
	case StructV:
		bv := b.(StructV)
		var es []*Term
		for i := range av.F {
			es = append(es, x.equal(av.F[i], bv.F[i]))
		}
		return And(es...)
	case ArrayV:
		bv := b.(ArrayV)
		var es []*Term
		for i := range av.E {
			es = append(es, x.equal(av.E[i], bv.E[i]))
		}
		return And(es...)
	}
	fail("== on %T / %T", a, b)
	return nil
}

func (x *Exec) typeAssert(st *State, fr *Frame, in *ssa.TypeAssert) Value {
	v := x.val(fr, in.X)
	res := func(ok *Term, val Value) Value {
		if in.CommaOk {
			return TupleV{E: []Value{val, Scalar{ok}}}
		}
		x.oblige(st, fr, "typeassert", x.site(fr, in), ok)
		return val
	}
	_, toIface := in.AssertedType.Underlying().(*types.Interface)
	switch iv := v.(type) {
	case IfaceV:
		if iv.Dyn == nil {
			return res(False(), x.zeroOrRef(in.AssertedType))
		}
		if toIface {
			ok := types.Implements(iv.Dyn, in.AssertedType.Underlying().(*types.Interface))
			if ok {
				return res(True(), iv)
			}
			return res(False(), x.zeroOrRef(in.AssertedType))
		}
		if types.Identical(iv.Dyn, in.AssertedType) {
			return res(True(), iv.V)
		}
		return res(False(), x.zero(in.AssertedType))
	case RefV:
		// unknown dynamic type: the outcome of the assertion is an uninterpreted predicate of the value
		if toIface {
			ok := And(Not(Eq(iv.T, Const(32, 0))), Apply("implements:"+typeString(in.AssertedType), BoolS, iv.T))
			return res(ok, RefV{iv.T})
		}
	}
	fail("typeAssert on %T to %s", v, in.AssertedType)
	return nil
}

func (x *Exec) zeroOrRef(t types.Type) Value { return x.zero(t) }

// skolem replaces universally quantified variables in positive positions of a goal by fresh constants
// (to prove ∀k.P(k) it suffices to prove P(k0) for an arbitrary k0).
func (x *Exec) skolem(t *Term) *Term {
	if !t.bound && t.Op != "forall" && t.Op != "and" && t.Op != "not" {
		return t
	}
	switch t.Op {
	case "forall":
		k := x.freshVar("sk_"+t.Args[0].Name, t.Args[0].S)
		return x.skolem(SubstBound(t.Args[1], t.Args[0], k))
	case "and":
		as := make([]*Term, len(t.Args))
		ch := false
		for i, a := range t.Args {
			as[i] = x.skolem(a)
			if as[i] != a {
				ch = true
			}
		}
		if ch {
			return And(as...)
		}
	case "not":
		// ¬(a ∧ ¬b) = a ⇒ b : skolemise the consequent(s)
		in := t.Args[0]
		if in.Op == "and" {
			as := make([]*Term, len(in.Args))
			ch := false
			for i, a := range in.Args {
				as[i] = a
				if a.Op == "not" {
					n := x.skolem(a.Args[0])
					if n != a.Args[0] {
						as[i] = Not(n)
						ch = true
					}
				}
			}
			if ch {
				return Not(And(as...))
			}
		}
	}
	return t
}
