package main

// Verification of one function against its contract: symbolic inputs, loop cutting at invariants,
// postconditions / panics / frame obligations; modular application of contracts at call sites.

import (
	"fmt"
	"go/ast"
	"go/parser"
	"go/token"
	"go/types"
	"runtime/debug"
	"sort"
	"strings"

	"golang.org/x/tools/go/ssa"
)

type loopAct struct {
	hdr  *ssa.BasicBlock
	mods []Ptr
	mark int
	n    int
}

type verifyCtx struct {
	fn        *ssa.Function
	c         *FnContract
	pre       *State
	args      []Value
	headers   []*ssa.BasicBlock
	bodies    map[*ssa.BasicBlock]map[*ssa.BasicBlock]bool
	active    map[*State][]*loopAct
	sitesSeen map[string]bool
}

func (v *verifyCtx) loopOrd(b *ssa.BasicBlock) int {
	for i, h := range v.headers {
		if h == b {
			return i + 1
		}
	}
	return 0
}

func (v *verifyCtx) loopAt(b *ssa.BasicBlock) *LoopC {
	n := v.loopOrd(b)
	if n == 0 {
		return nil
	}
	lc := v.c.Loops[n]
	if lc == nil {
		fail("UNDECIDED: loop %d of %s has no invariant", n, fnName(v.fn))
	}
	return lc
}

func loopBody(h *ssa.BasicBlock) map[*ssa.BasicBlock]bool {
	body := map[*ssa.BasicBlock]bool{h: true}
	var stack []*ssa.BasicBlock
	for _, p := range h.Preds {
		if h.Dominates(p) && !body[p] {
			body[p] = true
			stack = append(stack, p)
		}
	}
	for len(stack) > 0 {
		b := stack[len(stack)-1]
		stack = stack[:len(stack)-1]
		for _, p := range b.Preds {
			if !body[p] {
				body[p] = true
				stack = append(stack, p)
			}
		}
	}
	return body
}

// env builds the evaluation environment for contract expressions at a point inside the function
func (v *verifyCtx) env(x *Exec, st *State, fr *Frame) *CEnv {
	e := &CEnv{x: x, pre: v.pre, post: st, pkg: v.c.Pkg, bound: map[string]TV{}, fn: v.fn, frame: fr}
	e.names = func(name string, old bool) (Value, types.Type, bool) {
		if old {
			for i, p := range v.fn.Params {
				if p.Name() == name {
					return v.args[i], p.Type(), true
				}
			}
		}
		if fr != nil {
			if tv, ok := fr.name(name); ok {
				return tv.V, tv.T, true
			}
		}
		for i, p := range v.fn.Params {
			if p.Name() == name || fmt.Sprintf("arg%d", i+1) == name {
				return v.args[i], p.Type(), true
			}
		}
		// a parameter that was renamed since the contract was written: found by its recorded position
		for i, pn := range v.c.ParamNames {
			if pn == name && i < len(v.fn.Params) && i < len(v.args) {
				taken := false
				for _, p := range v.fn.Params {
					if p.Name() == name {
						taken = true
					}
				}
				if !taken {
					return v.args[i], v.fn.Params[i].Type(), true
				}
			}
		}
		return nil, nil, false
	}
	return e
}

// rangeInv: the built-in invariant of compiler-generated range loops over slices/arrays/strings:
// -1 <= rangeindex < len (the ranged length is the right operand of the loop test).
func (x *Exec) rangeInv(fr *Frame, b *ssa.BasicBlock) *Term {
	for k := 0; k < skipPhis(b); k++ {
		phi := b.Instrs[k].(*ssa.Phi)
		if phi.Comment != "rangeindex" {
			continue
		}
		v, ok := fr.get(phi)
		if !ok {
			continue
		}
		s, isS := v.(Scalar)
		if !isS {
			continue
		}
		inv := cmp("bvsle", Const(s.T.S.W, ^uint64(0)), s.T)
		for _, ins := range b.Instrs {
			if bo, isB := ins.(*ssa.BinOp); isB && bo.Op.String() == "<" {
				if add, isAdd := bo.X.(*ssa.BinOp); isAdd && add.X == ssa.Value(phi) {
					if lv, has := fr.get(bo.Y); has {
						inv = And(inv, cmp("bvslt", s.T, lv.(Scalar).T))
					} else if c, isC := bo.Y.(*ssa.Const); isC {
						inv = And(inv, cmp("bvslt", s.T, x.constVal(c).(Scalar).T))
					}
				}
			}
		}
		return inv
	}
	return x.countInv(fr, b)
}

// countInv: the built-in invariant of a source-level counting loop `for i := c; i < B; i++` (c a constant, i
// incremented by exactly one on every back edge, loop test `i < B` in the header): c <= i, and i <= B when c is 0 and
// B is len(v) / cap(v) of a slice or string defined before the loop. It is the counterpart of rangeInv, so that a
// range loop rewritten as an index loop keeps the facts the range form has for free. Like rangeInv it is RECORDED as
// an obligation at loop entry and on every back edge, never just assumed.
func (x *Exec) countInv(fr *Frame, b *ssa.BasicBlock) *Term {
	inv := True()
	for k := 0; k < skipPhis(b); k++ {
		phi := b.Instrs[k].(*ssa.Phi)
		if phi.Comment == "rangeindex" {
			continue
		}
		var init *ssa.Const
		step := false
		for _, ed := range phi.Edges {
			if c, isC := ed.(*ssa.Const); isC && c.Value != nil {
				init = c
				continue
			}
			if bo, isB := ed.(*ssa.BinOp); isB && bo.Op == token.ADD && bo.X == ssa.Value(phi) {
				if c1, isC := bo.Y.(*ssa.Const); isC && c1.Value != nil && c1.Int64() == 1 {
					step = true
					continue
				}
			}
			init, step = nil, false
			break
		}
		if init == nil || !step {
			continue
		}
		bt, isBasic := phi.Type().Underlying().(*types.Basic)
		if !isBasic || bt.Info()&types.IsInteger == 0 || bt.Info()&types.IsUnsigned != 0 {
			continue
		}
		v, ok := fr.get(phi)
		if !ok {
			continue
		}
		s, isS := v.(Scalar)
		if !isS {
			continue
		}
		// the header must test `phi < B`
		var bound ssa.Value
		for _, ins := range b.Instrs {
			if bo, isB := ins.(*ssa.BinOp); isB && bo.Op == token.LSS && bo.X == ssa.Value(phi) {
				bound = bo.Y
			}
		}
		if bound == nil {
			continue
		}
		inv = And(inv, cmp("bvsle", Const(s.T.S.W, uint64(init.Int64())), s.T))
		if call, isCall := bound.(*ssa.Call); isCall && init.Int64() == 0 {
			if bi, isBi := call.Call.Value.(*ssa.Builtin); isBi && (bi.Name() == "len" || bi.Name() == "cap") && len(call.Call.Args) == 1 {
				arg := call.Call.Args[0]
				if ins, isIns := arg.(ssa.Instruction); !isIns || ins.Block() != b {
					if av, has := fr.get(arg); has {
						var l *Term
						switch a := av.(type) {
						case SliceV:
							l = a.Len
							if bi.Name() == "cap" {
								l = a.Cap
							}
						case StrV:
							if bi.Name() == "len" {
								l = x.strLen(a)
							}
						}
						if l != nil && l.S.W == s.T.S.W {
							inv = And(inv, cmp("bvsle", s.T, l))
						}
					}
				}
			}
		}
	}
	return inv
}

func (v *verifyCtx) enterLoop(x *Exec, st *State, fr *Frame, b *ssa.BasicBlock, lc *LoopC) {
	n := v.loopOrd(b)
	e := v.env(x, st, fr)
	x.record(Oblig{Name: fmt.Sprintf("%s#loop%d.rangeindex.entry", fnName(v.fn), n), Cond: x.rangeInv(fr, b), PC: st.PC(), Kind: "invariant", Fn: fnName(v.fn)})
	for i, inv := range lc.Inv {
		x.record(Oblig{Name: fmt.Sprintf("%s#loop%d.invariant%d.entry", fnName(v.fn), n, i+1), Cond: e.Formula(inv), PC: st.PC(), Kind: "invariant", Fn: fnName(v.fn)})
	}
	if lc.Finger != "" {
		found := false
		for k := 0; k < skipPhis(b); k++ {
			if b.Instrs[k].(*ssa.Phi).Comment == lc.Finger {
				found = true
			}
		}
		if !found {
			fail("UNDECIDED: loop %d of %s no longer has induction variable %q", n, fnName(v.fn), lc.Finger)
		}
	}
	// havoc loop-carried values and declared locations
	var mods []Ptr
	for _, m := range lc.Modifies {
		// a name that does not denote a location at the loop head (e.g. a variable that a refactoring moved into the
		// loop body) declares nothing: every store inside the loop is checked against the declared locations
		// (checkLoopMods), so skipping it cannot hide a write
		var locs []Ptr
		func() {
			defer func() {
				if r := recover(); r != nil {
					if _, ok := r.(engineErr); ok {
						locs = nil
						return
					}
					panic(r)
				}
			}()
			locs = e.evalLocs(m)
		}()
		for _, p := range locs {
			if p.Obj != nil {
				mods = append(mods, p)
			}
		}
	}
	mark := x.nextObj
	for _, p := range mods {
		cur := x.load(st, p)
		x.storeRaw(st, p, x.havocLike(st, cur, p.Obj.Name))
	}
	// the ghost visited set of a map range driven by this loop is loop-carried state too
	for blk := range v.bodies[b] {
		for _, ins := range blk.Instrs {
			if nx, ok := ins.(*ssa.Next); ok {
				if rv, has := fr.get(nx.Iter); has {
					if r, isR := rv.(RangeV); isR && r.Obj != nil {
						if cur, okc := st.Heap[r.Obj.ID].(Scalar); okc {
							st.Heap[r.Obj.ID] = Scalar{x.freshVar("visited", cur.T.S)}
						}
					}
				}
			}
		}
	}
	for k := 0; k < skipPhis(b); k++ {
		phi := b.Instrs[k].(*ssa.Phi)
		nv := x.sym(st, phi.Type(), "loop_"+phi.Comment)
		fr.env[phi] = nv
		if phi.Comment != "" {
			fr.names[phi.Comment] = TV{nv, phi.Type()}
			// rangeindex1, rangeindex2, ...: the index of loop N (the bare name is the innermost loop entered last)
			fr.names[fmt.Sprintf("%s%d", phi.Comment, n)] = TV{nv, phi.Type()}
		}
		if pos := srcPhiPos(b, k); pos > 0 {
			fr.names[fmt.Sprintf("phi%d", pos)] = TV{nv, phi.Type()}
			fr.names[fmt.Sprintf("l%dphi%d", n, pos)] = TV{nv, phi.Type()}
		}
	}
	st.Loops = append(st.Loops, &loopAct{hdr: b, mods: mods, mark: mark, n: n})
	e = v.env(x, st, fr)
	st.Assume = append(st.Assume, Implies(st.Branch(), x.rangeInv(fr, b)))
	for _, inv := range lc.Inv {
		st.Assume = append(st.Assume, Implies(st.Branch(), e.Formula(inv)))
	}
	x.record(Oblig{Name: fmt.Sprintf("%s#loop%d.cover.invariant", fnName(v.fn), n), Cond: False(), PC: st.PC(), Kind: "cover", Fn: fnName(v.fn)})
	if lc.Dec != "" {
		m, _ := e.Term(lc.Dec)
		if fr.measures == nil {
			fr.measures = map[*ssa.BasicBlock]*Term{}
		}
		fr.measures[b] = m
	}
}

func (v *verifyCtx) backEdge(x *Exec, st *State, fr *Frame, b *ssa.BasicBlock, lc *LoopC) {
	n := v.loopOrd(b)
	e := v.env(x, st, fr)
	x.record(Oblig{Name: fmt.Sprintf("%s#loop%d.rangeindex.preserved", fnName(v.fn), n), Cond: x.rangeInv(fr, b), PC: st.PC(), Kind: "invariant", Fn: fnName(v.fn)})
	for i, inv := range lc.Inv {
		x.record(Oblig{Name: fmt.Sprintf("%s#loop%d.invariant%d.preserved", fnName(v.fn), n, i+1), Cond: e.Formula(inv), PC: st.PC(), Kind: "invariant", Fn: fnName(v.fn)})
	}
	if lc.Dec != "" {
		m, t := e.Term(lc.Dec)
		m0 := fr.measure(b)
		if m0 == nil {
			fail("loop %d: no recorded measure", n)
		}
		var c *Term
		if t != nil && signedT(t) {
			c = And(cmp("bvsle", Const(m0.S.W, 0), m0), cmp("bvslt", m, m0))
		} else {
			c = cmp("bvult", m, m0)
		}
		x.record(Oblig{Name: fmt.Sprintf("%s#loop%d.decreases", fnName(v.fn), n), Cond: c, PC: st.PC(), Kind: "decreases", Fn: fnName(v.fn)})
	}
}

// trimLoops drops loops the path has left
func (v *verifyCtx) trimLoops(st *State, b *ssa.BasicBlock) {
	for len(st.Loops) > 0 {
		l := st.Loops[len(st.Loops)-1]
		if v.bodies[l.hdr][b] {
			return
		}
		st.Loops = st.Loops[:len(st.Loops)-1]
	}
}

func covers(m Ptr, p Ptr) bool {
	if m.Obj != p.Obj || len(m.Path) > len(p.Path) {
		return false
	}
	for i := range m.Path {
		if m.Path[i].Field != p.Path[i].Field {
			return false
		}
		if m.Path[i].Field == -1 && m.Path[i].Idx != p.Path[i].Idx {
			return false
		}
	}
	return true
}

func (x *Exec) checkLoopMods(st *State, p Ptr) {
	for _, l := range st.Loops {
		if p.Obj.ID > l.mark {
			continue // allocated inside the loop
		}
		ok := false
		for _, m := range l.mods {
			if covers(m, p) {
				ok = true
			}
		}
		if !ok {
			fail("UNDECIDED: loop %d modifies clause does not cover a store to %s%s", l.n, p.Obj.Name, pathStr(p.Obj.Typ, p.Path))
		}
	}
}

func pathStr(t types.Type, path []PathElem) string {
	var sb strings.Builder
	for _, pe := range path {
		if pe.Field >= 0 {
			if st, ok := t.Underlying().(*types.Struct); ok && pe.Field < st.NumFields() {
				sb.WriteString("." + st.Field(pe.Field).Name())
				t = st.Field(pe.Field).Type()
				continue
			}
			fmt.Fprintf(&sb, ".f%d", pe.Field)
		} else {
			sb.WriteString("[·]")
			if at, ok := t.Underlying().(*types.Array); ok {
				t = at.Elem()
			}
		}
	}
	return sb.String()
}

func (x *Exec) storeRaw(st *State, p Ptr, v Value) {
	st.Heap[p.Obj.ID] = x.setPath(x.heapGet(st, p.Obj), p.Path, v)
}

// havocLike returns a fresh symbolic value with the shape of v
func (x *Exec) havocLike(st *State, v Value, name string) Value {
	switch vv := v.(type) {
	case Scalar:
		return Scalar{x.freshVar("havoc_"+name, vv.T.S)}
	case StrV:
		return StrV{x.freshVar("havoc_"+name, vv.T.S)}
	case RefV:
		return RefV{x.freshVar("havoc_"+name, vv.T.S)}
	case IfaceV, IfaceM, FuncV:
		return RefV{x.freshVar("havoc_"+name, BV(32))}
	case StructV:
		r := StructV{F: make([]Value, len(vv.F))}
		for i := range vv.F {
			r.F[i] = x.havocLike(st, vv.F[i], fmt.Sprintf("%s_f%d", name, i))
		}
		return r
	case ArrayV:
		// a larger array of scalars becomes one unknown SMT array (reads at symbolic indices stay small)
		if len(vv.E) >= 32 {
			if s0, ok := vv.E[0].(Scalar); ok && s0.T.S.Kind == 1 {
				var et types.Type
				switch s0.T.S.W {
				case 8:
					et = types.Typ[types.Uint8]
				case 16:
					et = types.Typ[types.Uint16]
				case 32:
					et = types.Typ[types.Uint32]
				case 64:
					et = types.Typ[types.Uint64]
				}
				if et != nil {
					return ArrayT{T: x.freshVar("havoc_"+name, ArrS(BV(64), s0.T.S)), Len: int64(len(vv.E)), Elem: et}
				}
			}
		}
		r := ArrayV{E: make([]Value, len(vv.E))}
		for i := range vv.E {
			r.E[i] = x.havocLike(st, vv.E[i], fmt.Sprintf("%s_%d", name, i))
		}
		return r
	case ArrayT:
		return ArrayT{T: x.freshVar("havoc_"+name, vv.T.S), Len: vv.Len, Elem: vv.Elem}
	case ArrayS:
		return ArrayS{L: x.havocLike(st, vv.L, name), Len: vv.Len, Elem: vv.Elem}
	case SeqL:
		return SeqL{Len: x.freshVar("havoc_"+name+"_len", vv.Len.S), Data: x.freshVar("havoc_"+name+"_data", vv.Data.S), Elem: vv.Elem}
	case MapT:
		return MapT{Has: x.freshVar("havoc_"+name+"_has", vv.Has.S), Val: x.havocLike(st, vv.Val, name+"_val"), K: vv.K, KT: vv.KT, VT: vv.VT}
	case SliceV:
		// the header stays on the same backing object; offset/len/cap become unknown
		l := x.freshVar("havoc_"+name+"_len", BV(64))
		c := x.freshVar("havoc_"+name+"_cap", BV(64))
		st.Assume = append(st.Assume, cmp("bvule", l, c), cmp("bvult", c, Const(64, 1<<40)))
		return SliceV{Obj: vv.Obj, Base: vv.Base, Off: vv.Off, Len: l, Cap: c, Nil: vv.Nil}
	case Ptr, MapV:
		return v
	}
	fail("havoc of %T not supported", v)
	return nil
}

// ---- symbolic inputs ----
func (x *Exec) sym(st *State, t types.Type, name string) Value {
	switch u := t.Underlying().(type) {
	case *types.Basic:
		if isString(t) {
			return StrV{x.freshVar(name, StrS)}
		}
		if s, ok := leafSort(t); ok {
			return Scalar{x.freshVar(name, s)}
		}
	case *types.Struct:
		s := StructV{}
		for i := 0; i < u.NumFields(); i++ {
			s.F = append(s.F, x.sym(st, u.Field(i).Type(), name+"."+u.Field(i).Name()))
		}
		return s
	case *types.Array:
		if u.Len() > bigArray {
			if s, ok := leafSort(u.Elem()); ok {
				return ArrayT{T: x.freshVar(name, ArrS(BV(64), s)), Len: u.Len(), Elem: u.Elem()}
			}
			fail("sym: big array of %s", u.Elem())
		}
		a := ArrayV{}
		for i := int64(0); i < u.Len(); i++ {
			a.E = append(a.E, x.sym(st, u.Elem(), fmt.Sprintf("%s_%d", name, i)))
		}
		return a
	case *types.Pointer:
		// a pointer input is a fresh object of the pointee type; a type that reaches itself through pointers
		// (a ROM holding a writer that points back to the ROM) has no finite unfolding: no verdict, not a crash
		key := types.TypeString(u.Elem(), nil)
		if x.symOpen == nil {
			x.symOpen = map[string]bool{}
		}
		if x.symOpen[key] {
			fail("sym: input type %s reaches itself through pointers (%s): cyclic input structures are outside the modelled subset", key, name)
		}
		x.symOpen[key] = true
		defer delete(x.symOpen, key)
		o := x.newObj(u.Elem(), name)
		o.Input = true
		st.Heap[o.ID] = x.sym(st, u.Elem(), name)
		return Ptr{Obj: o}
	case *types.Slice:
		o := x.newObj(types.NewArray(u.Elem(), 1<<40), name+"#backing")
		o.Input = true
		st.Heap[o.ID] = x.symBacking(u.Elem(), name)
		l := x.freshVar(name+"_len", BV(64))
		c := x.freshVar(name+"_cap", BV(64))
		nl := x.freshVar(name+"_nil", BoolS)
		st.Cond = append(st.Cond, cmp("bvule", l, c), cmp("bvult", c, Const(64, 1<<32)), Implies(nl, Eq(c, Const(64, 0))))
		return SliceV{Obj: o, Off: Const(64, 0), Len: l, Cap: c, Nil: nl}
	case *types.Interface, *types.Signature:
		return RefV{x.freshVar(name, BV(32))}
	case *types.Map:
		o := x.newObj(t, name)
		o.Input = true
		st.Heap[o.ID] = x.symMap(u, name)
		return MapV{Obj: o}
	}
	fail("sym: unsupported type %s", t)
	return nil
}

// ---- result naming ----
func resultNames(fn *ssa.Function) []string {
	var out []string
	rs := fn.Signature.Results()
	for i := 0; i < rs.Len(); i++ {
		out = append(out, rs.At(i).Name())
	}
	return out
}

func retValues(fn *ssa.Function, ret Value) []Value {
	n := fn.Signature.Results().Len()
	switch n {
	case 0:
		return nil
	case 1:
		return []Value{ret}
	}
	return ret.(TupleV).E
}

// postEnv: environment for ensures / onpanic clauses
func (v *verifyCtx) postEnv(x *Exec, st *State, rets []Value, fr *Frame) *CEnv {
	e := v.env(x, st, fr) // locals of the returning path are visible (single-return functions)
	base := e.names
	rn := resultNames(v.fn)
	e.names = func(name string, old bool) (Value, types.Type, bool) {
		for i, r := range rets {
			if (rn[i] != "" && rn[i] != "_" && rn[i] == name) || fmt.Sprintf("ret%d", i+1) == name {
				return r, v.fn.Signature.Results().At(i).Type(), true
			}
		}
		return base(name, old)
	}
	return e
}

type VerifyResult struct {
	Fn        string
	Outcomes  int
	Obligs    []Oblig
	Undecided string
}

// VerifyFn checks fn's body against contract c. All obligations are returned (not yet discharged).
func (x *Exec) VerifyFn(fn *ssa.Function, c *FnContract) (res VerifyResult) {
	return x.VerifyJob(fn, c, -1)
}

// VerifyJob verifies one case of a contract; op >= 0 selects the opcode of a harness lemma.
func (x *Exec) VerifyJob(fn *ssa.Function, c *FnContract, op int) (res VerifyResult) {
	res.Fn = fnName(fn)
	defer func() {
		if r := recover(); r != nil {
			if ee, ok := r.(engineErr); ok {
				res.Undecided = ee.msg
				return
			}
			if mf, ok := r.(mergeFail); ok {
				res.Undecided = "values of different shapes meet at a symbolic selection: " + mf.msg
				return
			}
			// a construct the engine does not model: undecided (exit 2), never a crash and never a pass
			st := string(debug.Stack())
			if i := strings.Index(st, "panic("); i >= 0 {
				st = st[i:]
			}
			if len(st) > 900 {
				st = st[:900]
			}
			res.Undecided = fmt.Sprintf("engine panic (unmodelled construct): %v | %s", r, strings.ReplaceAll(st, "\n", " "))
		}
	}()
	if len(c.Cases) == 0 {
		x.verifyCase(fn, c, "", op, &res)
	} else {
		for i, cs := range c.Cases {
			x.verifyCase(fn, c, fmt.Sprintf("case%d:%s", i+1, cs), op, &res)
		}
	}
	return
}

func (x *Exec) verifyCase(fn *ssa.Function, c *FnContract, caseExpr string, op int, res *VerifyResult) {
	st := NewState()
	var argv []Value
	if c.Harness != "" {
		argv = x.harnessArgs(st, fn, c, op)
	} else {
		for _, p := range fn.Params {
			argv = append(argv, x.sym(st, p.Type(), p.Name()))
		}
	}
	ctx := &verifyCtx{fn: fn, c: c, args: argv, headers: loopHeaders(fn), bodies: map[*ssa.BasicBlock]map[*ssa.BasicBlock]bool{}, sitesSeen: map[string]bool{}}
	for _, h := range ctx.headers {
		ctx.bodies[h] = loopBody(h)
	}
	ctx.pre = st
	e0 := ctx.env(x, st, nil)
	for _, r := range c.Requires {
		st.Cond = append(st.Cond, e0.Formula(r))
	}
	suffix := ""
	if caseExpr != "" {
		i := strings.Index(caseExpr, ":")
		st.Cond = append(st.Cond, e0.Formula(caseExpr[i+1:]))
		suffix = "@" + caseExpr[:i]
	}
	if op >= 0 {
		suffix += fmt.Sprintf("@op=%02X", op)
		x.ctxSuffix = fmt.Sprintf("@op=%02X[%s]", op, fn.Name())
	}
	ctx.pre = st.clone()
	// vacuity: the precondition must be satisfiable
	x.record(Oblig{Name: fnName(fn) + "#cover.requires" + suffix, Cond: False(), PC: st.PC(), Kind: "cover", Fn: fnName(fn)})
	saved := x.cur
	x.cur = ctx
	x.storeHook = func(s *State, p Ptr) { x.checkLoopMods(s, p) }
	mark := len(x.Obligs)
	fr := &Frame{fn: fn, env: map[ssa.Value]Value{}, names: map[string]TV{}, top: true}
	for i, p := range fn.Params {
		fr.env[p] = argv[i]
		fr.names[p.Name()] = TV{argv[i], p.Type()}
	}
	entry := st.clone()
	outs := x.runRegion(st, fr, fn.Blocks[0], nil, nil)
	outs = x.mergeReturns(entry, outs)
	x.cur = saved
	x.storeHook = nil
	res.Outcomes += len(outs)
	name := fnName(fn)
	var panicConds []*Term
	for _, o := range outs {
		switch o.Kind {
		case oDead:
			continue
		case oPanic:
			if !o.Explicit {
				// runtime panic: its obligation has been recorded at the site
				continue
			}
			if c.MayPanic {
				continue
			}
			if !c.HasPanics {
				x.record(Oblig{Name: name + "#nopanic" + suffix + ":" + o.PanicS, Cond: False(), PC: o.St.PC(), Kind: "nopanic", Fn: name})
				continue
			}
			pe := ctx.postEnv(x, ctx.pre, nil, nil)
			var ds []*Term
			for _, p := range c.Panics {
				ds = append(ds, pe.Formula(p))
			}
			x.record(Oblig{Name: name + "#panics.onlyif" + suffix, Cond: Or(ds...), PC: o.St.PC(), Kind: "panics", Fn: name})
			panicConds = append(panicConds, o.St.Branch())
			oe := ctx.postEnv(x, o.St, nil, nil)
			for i, op := range c.OnPanic {
				x.record(Oblig{Name: fmt.Sprintf("%s#onpanic%d%s", name, i+1, suffix), Cond: oe.Formula(op), PC: o.St.PC(), Kind: "onpanic", Fn: name})
			}
		case oReturn:
			rets := retValues(fn, o.Ret)
			e := ctx.postEnv(x, o.St, rets, o.Fr)
			x.record(Oblig{Name: name + "#cover.return" + suffix, Cond: False(), PC: o.St.PC(), Kind: "cover", Fn: name})
			if c.HasPanics {
				pe := ctx.postEnv(x, ctx.pre, nil, nil)
				var ds []*Term
				for _, p := range c.Panics {
					ds = append(ds, pe.Formula(p))
				}
				x.record(Oblig{Name: name + "#panics.if" + suffix, Cond: Not(Or(ds...)), PC: o.St.PC(), Kind: "panics", Fn: name})
			}
			for i, en := range c.Ensures {
				f := e.Formula(en)
				if c.Split != "" && !f.IsTrue() {
					k := strings.LastIndex(c.Split, " ")
					var lo, hi int
					fmt.Sscanf(c.Split[k+1:], "%d..%d", &lo, &hi)
					pe0 := ctx.postEnv(x, ctx.pre, nil, nil)
					st, _ := pe0.Term(c.Split[:k])
					x.record(Oblig{Name: fmt.Sprintf("%s#ensures%d%s", name, i+1, suffix), Cond: f, PC: o.St.PC(), Kind: "ensures", Fn: name, SplitT: st, SplitLo: lo, SplitHi: hi})
					continue
				}
				x.record(Oblig{Name: fmt.Sprintf("%s#ensures%d%s", name, i+1, suffix), Cond: f, PC: pc0(o.St), Kind: "ensures", Fn: name})
			}
			if c.HasAssigns {
				x.frameObligs(ctx, o.St, name+"#frame"+suffix)
			}
		}
	}
	_ = panicConds
	for site := range c.SiteAsserts {
		if !ctx.sitesSeen[site] {
			fail("UNDECIDED: call site %s named by an 'at' clause of %s was not reached (renamed or removed?)", site, name)
		}
	}
	// obligations with the same name (same clause / site reached along several paths) are one obligation
	byName := map[string]int{}
	var merged []Oblig
	for _, o := range x.Obligs[mark:] {
		if i, ok := byName[o.Name]; ok && o.Kind == "cover" {
			// vacuity guard: some path to this point is feasible
			merged[i].PC = Or(merged[i].PC, o.PC)
			continue
		}
		if i, ok := byName[o.Name]; ok {
			m := &merged[i]
			if !m.PC.IsTrue() {
				m.Cond = Implies(m.PC, m.Cond)
				m.PC = True()
			}
			m.Cond = And(m.Cond, Implies(o.PC, o.Cond))
			continue
		}
		byName[o.Name] = len(merged)
		merged = append(merged, o)
	}
	res.Obligs = append(res.Obligs, merged...)
}

// frameObligs: every input location not covered by an assigns entry is unchanged
func (x *Exec) frameObligs(v *verifyCtx, post *State, name string) {
	e := v.env(x, post, nil)
	e.post = v.pre // locations are resolved in the pre-state
	var locs []Ptr
	for _, a := range v.c.Assigns {
		for _, p := range e.evalLocs(a) {
			if p.Obj != nil {
				locs = append(locs, p)
			}
		}
	}
	var ids []int
	for id := range v.pre.Heap {
		ids = append(ids, id)
	}
	sort.Ints(ids)
	for _, id := range ids {
		o := x.objs[id]
		if o == nil || !o.Input {
			continue
		}
		pv := v.pre.Heap[id]
		qv, ok := post.Heap[id]
		if !ok {
			continue
		}
		x.diffFrame(post, o, nil, pv, qv, locs, name)
	}
}

func (x *Exec) diffFrame(post *State, o *Object, path []PathElem, pv, qv Value, locs []Ptr, name string) {
	here := Ptr{Obj: o, Path: path}
	for _, m := range locs {
		if covers(m, here) {
			return
		}
	}
	rec := func(c *Term) {
		x.record(Oblig{Name: fmt.Sprintf("%s:%s%s", name, o.Name, pathStr(o.Typ, path)), Cond: c, PC: post.PC(), Kind: "frame", Fn: name})
	}
	switch p := pv.(type) {
	case StructV:
		q := qv.(StructV)
		if len(p.F) > 0 && &p.F[0] == &q.F[0] {
			return
		}
		for i := range p.F {
			x.diffFrame(post, o, append(append([]PathElem(nil), path...), PathElem{Field: i}), p.F[i], q.F[i], locs, name)
		}
	case ArrayV:
		q := qv.(ArrayV)
		if len(p.E) > 0 && &p.E[0] == &q.E[0] {
			return
		}
		for i := range p.E {
			x.diffFrame(post, o, append(append([]PathElem(nil), path...), PathElem{Field: -1, Idx: Const(64, uint64(i))}), p.E[i], q.E[i], locs, name)
		}
	case Scalar:
		rec(Eq(p.T, qv.(Scalar).T))
	case StrV:
		rec(Eq(p.T, qv.(StrV).T))
	case ArrayT:
		q := qv.(ArrayT)
		if p.T == q.T {
			return
		}
		k := x.freshVar("frame_k", p.T.S.Idx)
		rec(Eq(Select(p.T, k), SelectDeep(q.T, k)))
	case ArrayS:
		x.diffFrame(post, o, path, p.L, qv.(ArrayS).L, locs, name)
	case SliceV:
		q := qv.(SliceV)
		rec(And(BoolC(p.Obj == q.Obj), Eq(p.Off, q.Off), Eq(p.Len, q.Len), Eq(p.Cap, q.Cap)))
	case MapT:
		q := qv.(MapT)
		if p.Has != q.Has {
			k := x.freshVar("frame_k", p.K)
			rec(Eq(Select(p.Has, k), Select(q.Has, k)))
		}
		x.diffFrame(post, o, path, p.Val, q.Val, locs, name)
	case SeqL:
		q := qv.(SeqL)
		if p.Len != q.Len || p.Data != q.Data {
			k := x.freshVar("frame_k", p.Len.S.Idx)
			j := x.freshVar("frame_j", BV(64))
			rec(And(Eq(Select(p.Len, k), Select(q.Len, k)), Eq(Select(Select(p.Data, k), j), Select(Select(q.Data, k), j))))
		}
	case RefV, IfaceV, IfaceM, FuncV:
		rec(Eq(x.refOf(pv), x.refOf(qv)))
	case Ptr:
		q := qv.(Ptr)
		rec(BoolC(p.Obj == q.Obj && samePath(p.Path, q.Path)))
	case MapV:
		rec(BoolC(p.Obj == qv.(MapV).Obj))
	case Opaque:
	default:
		fail("frame: value kind %T not supported", pv)
	}
}

// ---- modular call: assert pre, havoc assigns, assume post ----
func (x *Exec) applyContract(st *State, fn *ssa.Function, c *FnContract, args []Value, site string) []Outcome {
	x.Modular[fnName(fn)]++
	{
		var ts []*Term
		for _, a := range args {
			switch av := a.(type) {
			case Scalar:
				ts = append(ts, av.T)
			case StrV:
				ts = append(ts, av.T)
			}
		}
		st.Events = append(st.Events, Event{Guard: True(), Callee: fnName(fn), Args: ts})
	}
	if !c.HasAssigns {
		fail("modular contract of %s needs an assigns clause", c.Key)
	}
	pre := st.clone()
	cx := &verifyCtx{fn: fn, c: c, args: args, pre: pre}
	e := cx.env(x, st, nil)
	name := fnName(fn)
	for i, r := range c.Requires {
		x.record(Oblig{Name: fmt.Sprintf("%s#pre%d@%s", name, i+1, site), Cond: e.Formula(r), PC: st.PC(), Kind: "pre", Fn: name})
		st.Assume = append(st.Assume, Implies(st.Branch(), e.Formula(r)))
	}
	var outs []Outcome
	normal := st
	if c.HasPanics {
		var ds []*Term
		for _, p := range c.Panics {
			ds = append(ds, e.Formula(p))
		}
		pc := Or(ds...)
		if !pc.IsFalse() {
			ps := st.clone()
			ps.Cond = append(ps.Cond, pc)
			if !And(ps.Cond...).IsFalse() {
				outs = append(outs, Outcome{Kind: oPanic, St: ps, Explicit: true, PanicS: "panic in " + name + " (contract) @" + site})
			}
			normal = st.clone()
			normal.Cond = append(normal.Cond, Not(pc))
		}
	}
	// havoc
	havoc := map[int64]Ptr{}
	for _, a := range c.Assigns {
		for _, p := range e.evalLocs(a) {
			if p.Obj == nil {
				continue
			}
			if x.storeHook != nil {
				x.storeHook(normal, p)
			}
			hv := x.havocLike(normal, x.load(normal, p), p.Obj.Name)
			x.storeRaw(normal, p, hv)
			if at, ok := hv.(ArrayT); ok && at.T.Op == "var" {
				havoc[at.T.id] = p
			}
		}
	}
	var rets []Value
	rs := fn.Signature.Results()
	for i := 0; i < rs.Len(); i++ {
		rets = append(rets, x.sym(normal, rs.At(i).Type(), name+"_ret"))
	}
	// definitional result clauses: `retN == p` with a pointer-typed result binds the result to p (a fresh symbolic
	// pointer can never equal an existing one, so assuming the clause would make the path vacuous)
	{
		pe0 := cx.postEnv(x, normal, rets, nil)
		for _, en := range c.Ensures {
			x.bindPtrResults(pe0, fn, rets, en)
		}
	}
	pe := cx.postEnv(x, normal, rets, nil)
	// definitional alias clauses: `aliases(L, R)` in a postcondition binds the slice L of the fresh result to R
	// (a fresh symbolic result can never satisfy an aliasing fact, so assuming it would be vacuous)
	for _, en := range c.Ensures {
		x.bindAliases(pe, normal, en)
	}
	for _, en := range c.Ensures {
		f := x.bindLambdas(normal, pe.Formula(en), havoc)
		if f.IsFalse() {
			fail("UNDECIDED: postcondition %q of %s folds to false at call site %s: assuming it would make the caller's path vacuous", en, name, site)
		}
		normal.Assume = append(normal.Assume, Implies(normal.Branch(), f))
		// top-level literals of an assumed postcondition prune later branches on this path
		if normal.Facts == nil {
			normal.Facts = map[int64]bool{}
		}
		if f.Op == "and" {
			for _, a := range f.Args {
				normal.Facts[a.id] = true
			}
		} else if !f.IsTrue() {
			normal.Facts[f.id] = true
		}
	}
	var ret Value
	switch len(rets) {
	case 0:
		ret = TupleV{}
	case 1:
		ret = rets[0]
	default:
		ret = TupleV{E: rets}
	}
	outs = append([]Outcome{{Kind: oReturn, St: normal, Ret: ret}}, outs...)
	return outs
}

// tryDefinitional is a hook for postconditions of the shape all(k, T, a[k] == e): bind a := λk.e.
// (Implemented for the patterns the contracts use; see lambdaEnsures.)
func (x *Exec) tryDefinitional(pe *CEnv, st *State, en string) bool {
	return x.lambdaEnsures(pe, st, en)
}

// lambdaEnsures recognises definitional postconditions  all(k, T, guard ==> arr[k] == rhs)  over an array
// that the call has just havocked, and binds that array to  λi. ite(guard, rhs, arr_havoc[i])  instead of
// assuming a quantified fact: later reads β-reduce, so chains of such calls stay quantifier-free.
// Returns false when the clause has another shape (it is then assumed as a formula).
func (x *Exec) lambdaEnsures(pe *CEnv, st *State, en string) bool {
	return false
}

// bindLambdas post-processes the assumed ensures of a modular call. f is one evaluated clause; havoc maps
// fresh array variables (by term id) to the heap location they stand for. Conjuncts of the definitional
// shape are turned into lambda bindings; the rest is returned to be assumed.
func (x *Exec) bindLambdas(st *State, f *Term, havoc map[int64]Ptr) *Term {
	var conj []*Term
	if f.Op == "and" {
		conj = f.Args
	} else {
		conj = []*Term{f}
	}
	var rest []*Term
	for _, c := range conj {
		if c.Op != "forall" || len(c.Args) != 2 {
			rest = append(rest, c)
			continue
		}
		bv, body := c.Args[0], c.Args[1]
		// body = guard ==> lhs == rhs, i.e. not(and(guard..., not(eq)))  or plain eq
		var guards []*Term
		var eq *Term
		switch {
		case body.Op == "=":
			eq = body
		case body.Op == "not" && body.Args[0].Op == "and":
			for _, a := range body.Args[0].Args {
				if a.Op == "not" && a.Args[0].Op == "=" && eq == nil {
					eq = a.Args[0]
				} else {
					guards = append(guards, a)
				}
			}
		case body.Op == "not" && body.Args[0].Op == "not":
			eq = body.Args[0].Args[0]
		}
		if eq == nil || eq.Op != "=" {
			rest = append(rest, c)
			continue
		}
		var sel, rhs *Term
		for k := 0; k < 2; k++ {
			a, b := eq.Args[k], eq.Args[1-k]
			if a.Op == "select" && a.Args[0].Op == "var" {
				if _, ok := havoc[a.Args[0].id]; ok && !mentions(b, a.Args[0]) {
					sel, rhs = a, b
				}
			}
		}
		if sel == nil {
			rest = append(rest, c)
			continue
		}
		arrVar := sel.Args[0]
		idx := sel.Args[1]
		// index must be the bound variable itself or its zero-extension
		var back func(i *Term) *Term
		switch {
		case idx == bv:
			back = func(i *Term) *Term { return i }
		case idx.Op == "zext" && idx.Args[0] == bv:
			w := bv.S.W
			back = func(i *Term) *Term { return Extract(w-1, 0, i) }
			guards = append(guards, nil) // marker: add range guard below
		default:
			rest = append(rest, c)
			continue
		}
		for _, g := range guards {
			if g != nil && mentions(g, arrVar) {
				sel = nil
			}
		}
		if sel == nil {
			rest = append(rest, c)
			continue
		}
		i := Bound(fmt.Sprintf("i_b%d", x.nextFresh()), arrVar.S.Idx)
		var gs []*Term
		for _, g := range guards {
			if g == nil {
				gs = append(gs, cmp("bvule", i, Const(i.S.W, mask(bv.S.W))))
				continue
			}
			gs = append(gs, SubstBound(g, bv, back(i)))
		}
		lam := Lambda(i, Ite(And(gs...), SubstBound(rhs, bv, back(i)), Select(arrVar, i)))
		p := havoc[arrVar.id]
		cur := x.load(st, p)
		switch cv := cur.(type) {
		case ArrayT:
			x.storeRaw(st, p, ArrayT{T: Subst(cv.T, map[int64]*Term{arrVar.id: lam}), Len: cv.Len, Elem: cv.Elem})
		default:
			rest = append(rest, c)
			continue
		}
		// later clauses that mention the variable see the lambda
		for k := range rest {
			rest[k] = Subst(rest[k], map[int64]*Term{arrVar.id: lam})
		}
	}
	return And(rest...)
}

func mentions(t, v *Term) bool {
	seen := map[int64]bool{}
	var walk func(t *Term) bool
	walk = func(t *Term) bool {
		if t == v {
			return true
		}
		if seen[t.id] {
			return false
		}
		seen[t.id] = true
		for _, a := range t.Args {
			if walk(a) {
				return true
			}
		}
		return false
	}
	return walk(t)
}

func pc0(st *State) *Term { return st.PC() }

func (x *Exec) bindPtrResults(pe *CEnv, fn *ssa.Function, rets []Value, en string) {
	ex, err := parser.ParseExpr(rewriteImplies(en))
	if err != nil {
		return
	}
	rs := fn.Signature.Results()
	retIdx := func(e ast.Expr) int {
		id, ok := e.(*ast.Ident)
		if !ok {
			return -1
		}
		for i := 0; i < rs.Len(); i++ {
			if id.Name == fmt.Sprintf("ret%d", i+1) || (rs.At(i).Name() != "" && id.Name == rs.At(i).Name()) {
				if _, isPtr := rs.At(i).Type().Underlying().(*types.Pointer); isPtr {
					return i
				}
			}
		}
		return -1
	}
	var walk func(e ast.Expr)
	walk = func(e ast.Expr) {
		switch n := e.(type) {
		case *ast.ParenExpr:
			walk(n.X)
		case *ast.BinaryExpr:
			switch n.Op {
			case token.LAND:
				walk(n.X)
				walk(n.Y)
			case token.EQL:
				for k := 0; k < 2; k++ {
					l, r := n.X, n.Y
					if k == 1 {
						l, r = r, l
					}
					if i := retIdx(l); i >= 0 && retIdx(r) < 0 {
						func() {
							defer func() { recover() }()
							if p, ok := pe.eval(r).V.(Ptr); ok && p.Obj != nil {
								rets[i] = p
							}
						}()
					}
				}
			}
		}
	}
	walk(ex)
}

func (x *Exec) bindAliases(pe *CEnv, st *State, en string) {
	ex, err := parser.ParseExpr(rewriteImplies(en))
	if err != nil {
		return
	}
	var walk func(e ast.Expr)
	walk = func(e ast.Expr) {
		switch n := e.(type) {
		case *ast.ParenExpr:
			walk(n.X)
		case *ast.BinaryExpr:
			if n.Op == token.LAND {
				walk(n.X)
				walk(n.Y)
			}
		case *ast.CallExpr:
			if id, ok := n.Fun.(*ast.Ident); ok && id.Name == "aliases" && len(n.Args) == 2 {
				sel, isSel := n.Args[0].(*ast.SelectorExpr)
				if !isSel {
					return
				}
				rhs := pe.eval(n.Args[1])
				rv, isSlice := rhs.V.(SliceV)
				if !isSlice {
					return
				}
				base := pe.eval(sel.X)
				p, isPtr := base.V.(Ptr)
				if !isPtr || p.Obj == nil {
					return
				}
				fi, _ := findField(base.T, sel.Sel.Name)
				if fi == nil {
					return
				}
				np := Ptr{Obj: p.Obj, Path: append([]PathElem(nil), p.Path...)}
				for _, k := range fi {
					np.Path = append(np.Path, PathElem{Field: k})
				}
				x.storeRaw(st, np, rv)
			}
		}
	}
	walk(ex)
}
