package main

import (
	"fmt"
	"go/types"
)

// Value is the engine's representation of a Go value. Values are immutable trees;
// leaves hold SMT terms.
type Value interface{}

type Scalar struct{ T *Term }    // integers (bit-vectors) and bools
type StrV struct{ T *Term }      // strings: sort Str (uninterpreted, literals interned)
type StructV struct{ F []Value } // struct value
type ArrayV struct{ E []Value }  // small explicit array
type ArrayT struct {             // array of scalars / reference ids as one SMT array, index BV64
	T    *Term
	Len  int64
	Elem types.Type
}

// ArrayS is an array of structured elements in struct-of-arrays form: L has the shape of one
// element, every leaf holding an SMT array indexed by BV64.
type ArrayS struct {
	L    Value
	Len  int64
	Elem types.Type
}
type PathElem struct {
	Field int   // >=0 field index, or -1 for array index
	Idx   *Term // BV64 index when Field==-1
}
type Ptr struct {
	Obj  *Object // nil => nil pointer
	Path []PathElem
}
type SliceV struct {
	Obj           *Object    // backing array object (nil => nil slice)
	Base          []PathElem // path to the array inside Obj
	Off, Len, Cap *Term      // BV64
	Nil           *Term      // Bool: the slice is nil (only for symbolic inputs; nil term => decided by Obj)
}
type TupleV struct{ E []Value }
type IfaceV struct {
	Dyn types.Type // nil => nil interface
	V   Value
	ID  int // registry id for non-pointer payloads
	Unk *Term // unresolved reference id (dynamic type unknown); Dyn is nil then
}

// IfaceM is a guarded choice between concrete interface values
type IfaceCase struct {
	C *Term
	V IfaceV
}
type IfaceM struct{ Cases []IfaceCase }

// RefV is a symbolic reference (interface / func value as a 32-bit id; 0 = nil)
type RefV struct{ T *Term }
type FuncV struct {
	Fn   interface{} // *ssa.Function or *ssa.Builtin; nil => nil func
	Bind []Value
}
type MapV struct{ Obj *Object } // nil Obj => nil map

// MapT is the heap content of a map object: Has: K→Bool, Val: lifted value (leaves are arrays from K)
type MapT struct {
	Has *Term
	Val Value
	K   *Sort
	KT  types.Type
	VT  types.Type
}

// SeqL is a lifted slice-of-scalars leaf: for each index i a sequence (len, data)
type SeqL struct {
	Len  *Term // Array I -> BV64
	Data *Term // Array I -> (Array BV64 elem)
	Elem types.Type
}
type Opaque struct{ Desc string } // state of trusted library objects we do not model

type Object struct {
	ID   int
	Typ  types.Type
	Name string
	// Input is set for objects that exist in the pre-state of a verified function
	Input bool
	// Owned marks a backing array created by append: later appends to a slice over it extend it in place
	Owned bool
}

func (o *Object) String() string { return fmt.Sprintf("obj%d(%s)", o.ID, o.Name) }

// State is per path
type State struct {
	Heap   map[int]Value // object id -> value
	Cond   []*Term
	Assume []*Term // guarded facts (from recorded obligations, contracts); never used as merge guards
	Events []Event
	Loops  []*loopAct // active loops under verification (for modifies checks)
	Facts  map[int64]bool // literals known to hold on this path (from assumed contract postconditions)
}

// Event is a call to a trusted / unknown callee recorded in the ghost event log
type Event struct {
	Guard  *Term
	Callee string
	Args   []*Term
}

func NewState() *State {
	return &State{Heap: map[int]Value{}}
}

func (s *State) clone() *State {
	n := &State{Heap: make(map[int]Value, len(s.Heap))}
	for k, v := range s.Heap {
		n.Heap[k] = v
	}
	n.Loops = append([]*loopAct(nil), s.Loops...)
	if len(s.Facts) > 0 {
		n.Facts = make(map[int64]bool, len(s.Facts))
		for k := range s.Facts {
			n.Facts[k] = true
		}
	}
	n.Cond = append([]*Term(nil), s.Cond...)
	n.Assume = append([]*Term(nil), s.Assume...)
	n.Events = append([]Event(nil), s.Events...)
	return n
}
func (s *State) PC() *Term     { return And(append(append([]*Term(nil), s.Cond...), s.Assume...)...) }
func (s *State) Branch() *Term { return And(s.Cond...) }

func fieldIdx(t types.Type, name string) int {
	if p, ok := t.Underlying().(*types.Pointer); ok {
		t = p.Elem()
	}
	st := t.Underlying().(*types.Struct)
	for i := 0; i < st.NumFields(); i++ {
		if st.Field(i).Name() == name {
			return i
		}
	}
	panic("no field " + name + " in " + t.String())
}

func hasField(t types.Type, name string) bool {
	if p, ok := t.Underlying().(*types.Pointer); ok {
		t = p.Elem()
	}
	st, ok := t.Underlying().(*types.Struct)
	if !ok {
		return false
	}
	for i := 0; i < st.NumFields(); i++ {
		if st.Field(i).Name() == name {
			return true
		}
	}
	return false
}
