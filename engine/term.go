package main

// Hash-consed SMT terms with smart constructors (constant folding, read-over-write,
// canonical conjunctions). Thread-safe: several symbolic executions run in parallel.

import (
	"fmt"
	"sort"
	"strings"
	"sync"
	"sync/atomic"
)

// ---- sorts ----
type Sort struct {
	Kind  int // 0 bool, 1 bv, 2 array, 3 uninterpreted
	W     int
	Idx   *Sort
	Elem  *Sort
	UName string
	str   string
}

var sortMu sync.Mutex
var BoolS = &Sort{Kind: 0, str: "Bool"}
var bvSorts = map[int]*Sort{}
var arrSorts = map[string]*Sort{}
var unSorts = map[string]*Sort{}

func BV(w int) *Sort {
	sortMu.Lock()
	defer sortMu.Unlock()
	if s, ok := bvSorts[w]; ok {
		return s
	}
	s := &Sort{Kind: 1, W: w, str: fmt.Sprintf("(_ BitVec %d)", w)}
	bvSorts[w] = s
	return s
}

func ArrS(i, e *Sort) *Sort {
	k := i.str + "->" + e.str
	sortMu.Lock()
	defer sortMu.Unlock()
	if s, ok := arrSorts[k]; ok {
		return s
	}
	s := &Sort{Kind: 2, Idx: i, Elem: e, str: fmt.Sprintf("(Array %s %s)", i.str, e.str)}
	arrSorts[k] = s
	return s
}

func UnS(n string) *Sort {
	sortMu.Lock()
	defer sortMu.Unlock()
	if s, ok := unSorts[n]; ok {
		return s
	}
	s := &Sort{Kind: 3, UName: n, str: n}
	unSorts[n] = s
	return s
}
func (s *Sort) String() string { return s.str }

var StrS = UnS("Str")

// ---- terms ----
type Term struct {
	Op    string
	S     *Sort
	Args  []*Term
	Val   uint64 // const
	Name  string // var / bound / apply symbol
	P1    int    // extract hi / extend amount
	P2    int    // extract lo
	id    int64
	bound bool     // mentions a free bound variable
	fb    []string // free bound variables (sorted)
}

const termShards = 64

type termShard struct {
	mu sync.Mutex
	m  map[string]*Term
}

var termTab = newTermTab()
var termCnt int64

func newTermTab() *[termShards]termShard {
	var t [termShards]termShard
	for i := range t {
		t[i].m = map[string]*Term{}
	}
	return &t
}

func fnv(s string) uint32 {
	h := uint32(2166136261)
	for i := 0; i < len(s); i++ {
		h ^= uint32(s[i])
		h *= 16777619
	}
	return h
}

func mk(op string, s *Sort, val uint64, name string, p1, p2 int, args ...*Term) *Term {
	var sb strings.Builder
	sb.Grow(48 + 8*len(args))
	sb.WriteString(op)
	sb.WriteByte('|')
	sb.WriteString(s.str)
	fmt.Fprintf(&sb, "|%d|%s|%d|%d", val, name, p1, p2)
	for _, a := range args {
		fmt.Fprintf(&sb, "|%d", a.id)
	}
	k := sb.String()
	sh := &termTab[fnv(k)%termShards]
	sh.mu.Lock()
	defer sh.mu.Unlock()
	if t, ok := sh.m[k]; ok {
		return t
	}
	t := &Term{Op: op, S: s, Args: args, Val: val, Name: name, P1: p1, P2: p2, id: atomic.AddInt64(&termCnt, 1)}
	switch op {
	case "bound":
		t.fb = []string{name}
	case "forall", "exists", "lambda":
		own := args[0].Name
		for _, a := range args[1:] {
			for _, n := range a.fb {
				if n != own {
					t.fb = addName(t.fb, n)
				}
			}
		}
	default:
		for _, a := range args {
			if len(a.fb) > 0 {
				if t.fb == nil {
					t.fb = a.fb
				} else {
					for _, n := range a.fb {
						t.fb = addName(t.fb, n)
					}
				}
			}
		}
	}
	t.bound = len(t.fb) > 0
	sh.m[k] = t
	return t
}

func addName(s []string, n string) []string {
	for _, x := range s {
		if x == n {
			return s
		}
	}
	r := append(append([]string(nil), s...), n)
	return r
}

func mask(w int) uint64 {
	if w >= 64 {
		return ^uint64(0)
	}
	return (uint64(1) << uint(w)) - 1
}
func Const(w int, v uint64) *Term { return mk("const", BV(w), v&mask(w), "", 0, 0) }

var tTrue = mk("true", BoolS, 0, "", 0, 0)
var tFalse = mk("false", BoolS, 0, "", 0, 0)

func True() *Term  { return tTrue }
func False() *Term { return tFalse }
func BoolC(b bool) *Term {
	if b {
		return tTrue
	}
	return tFalse
}
func Var(name string, s *Sort) *Term   { return mk("var", s, 0, name, 0, 0) }
func Bound(name string, s *Sort) *Term { return mk("bound", s, 0, name, 0, 0) }
func (t *Term) IsConst() bool          { return t.Op == "const" }
func (t *Term) IsTrue() bool           { return t == tTrue }
func (t *Term) IsFalse() bool          { return t == tFalse }

func sext(v uint64, w int) int64 {
	if w >= 64 {
		return int64(v)
	}
	if v&(1<<uint(w-1)) != 0 {
		return int64(v | ^mask(w))
	}
	return int64(v)
}

func Not(a *Term) *Term {
	if a.IsTrue() {
		return tFalse
	}
	if a.IsFalse() {
		return tTrue
	}
	if a.Op == "not" {
		return a.Args[0]
	}
	return mk("not", BoolS, 0, "", 0, 0, a)
}
func And(as ...*Term) *Term {
	var out []*Term
	seen := map[int64]bool{}
	for _, a := range as {
		if a.IsFalse() {
			return tFalse
		}
		if a.IsTrue() {
			continue
		}
		if a.Op == "and" {
			for _, b := range a.Args {
				if !seen[b.id] {
					seen[b.id] = true
					out = append(out, b)
				}
			}
			continue
		}
		if !seen[a.id] {
			seen[a.id] = true
			out = append(out, a)
		}
	}
	for _, a := range out {
		if a.Op == "not" && seen[a.Args[0].id] {
			return tFalse
		}
	}
	if len(out) == 0 {
		return tTrue
	}
	if len(out) == 1 {
		return out[0]
	}
	sort.Slice(out, func(i, j int) bool { return out[i].id < out[j].id })
	return mk("and", BoolS, 0, "", 0, 0, out...)
}
func Or(as ...*Term) *Term {
	ns := make([]*Term, len(as))
	for i, a := range as {
		ns[i] = Not(a)
	}
	return Not(And(ns...))
}
func Implies(a, b *Term) *Term { return Or(Not(a), b) }
func Ite(c, a, b *Term) *Term {
	if c.IsTrue() {
		return a
	}
	if c.IsFalse() {
		return b
	}
	if a == b {
		return a
	}
	if a.S != b.S {
		panic(fmt.Sprintf("Ite sort mismatch %s vs %s", a.S, b.S))
	}
	if a.S == BoolS {
		if a.IsTrue() && b.IsFalse() {
			return c
		}
		if a.IsFalse() && b.IsTrue() {
			return Not(c)
		}
		if a.IsTrue() {
			return Or(c, b)
		}
		if b.IsFalse() {
			return And(c, a)
		}
		if a.IsFalse() {
			return And(Not(c), b)
		}
		if b.IsTrue() {
			return Or(Not(c), a)
		}
	}
	if c.Op == "not" {
		return Ite(c.Args[0], b, a)
	}
	// ite(c, x, ite(c, y, z)) = ite(c, x, z)
	if b.Op == "ite" && b.Args[0] == c {
		return Ite(c, a, b.Args[2])
	}
	if a.Op == "ite" && a.Args[0] == c {
		return Ite(c, a.Args[1], b)
	}
	r := mk("ite", a.S, 0, "", 0, 0, c, a, b)
	if a.IsConst() && c.Op == "=" {
		if id := identityChain(r); id != nil {
			return id
		}
	}
	return r
}
func Eq(a, b *Term) *Term {
	if a == b {
		return tTrue
	}
	if a.S != b.S {
		panic(fmt.Sprintf("Eq sort mismatch %s vs %s", a.S, b.S))
	}
	if a.IsConst() && b.IsConst() {
		return BoolC(a.Val == b.Val)
	}
	if a.Op == "strlit" && b.Op == "strlit" {
		return BoolC(a.Name == b.Name)
	}
	if a.S == BoolS {
		if a.IsTrue() {
			return b
		}
		if b.IsTrue() {
			return a
		}
		if a.IsFalse() {
			return Not(b)
		}
		if b.IsFalse() {
			return Not(a)
		}
	}
	// ite(c,k1,k2)==k : fold when the arms are constants
	if a.Op == "ite" && (b.IsConst() || b.Op == "strlit") && isLit(a.Args[1]) && isLit(a.Args[2]) {
		return Ite(a.Args[0], Eq(a.Args[1], b), Eq(a.Args[2], b))
	}
	if b.IsConst() && iteLits(a, 40) {
		return mapIte(a, func(l *Term) *Term { return Eq(l, b) })
	}
	if b.Op == "ite" && (a.IsConst() || a.Op == "strlit") {
		return Eq(b, a)
	}
	// x + c1 == x + c2  (same base): decided by the constants
	if a.S.Kind == 1 {
		ab, ac := splitAdd(a)
		bb, bc := splitAdd(b)
		if ab == bb && (a.Op == "bvadd" || b.Op == "bvadd") {
			return BoolC(ac&mask(a.S.W) == bc&mask(a.S.W))
		}
	}
	// zext(x) == const
	if a.Op == "zext" && b.IsConst() {
		w := a.Args[0].S.W
		if b.Val > mask(w) {
			return tFalse
		}
		return Eq(a.Args[0], Const(w, b.Val))
	}
	if b.Op == "zext" && a.IsConst() {
		return Eq(b, a)
	}
	if a.id > b.id {
		a, b = b, a
	}
	return mk("=", BoolS, 0, "", 0, 0, a, b)
}
// iteLits: t is an ite tree whose leaves are all literals (at most max leaves)
func iteLits(t *Term, max int) bool {
	n := 0
	var walk func(t *Term) bool
	walk = func(t *Term) bool {
		if t.Op == "ite" {
			return walk(t.Args[1]) && walk(t.Args[2])
		}
		n++
		return n <= max && t.IsConst()
	}
	return t.Op == "ite" && walk(t)
}

// mapIte applies f to the leaves of an ite tree
func mapIte(t *Term, f func(*Term) *Term) *Term {
	if t.Op == "ite" {
		return Ite(t.Args[0], mapIte(t.Args[1], f), mapIte(t.Args[2], f))
	}
	return f(t)
}

// identityChain recognises  ite(x==0,0, ite(x==1,1, ... ite(x==14,14, 15|d)))  over a 4-bit-valued x
// (x = y & 0xF) and returns zext(x); nil otherwise. (Hex-digit tables composed with their inverse.)
func identityChain(t *Term) *Term {
	if t.Op != "ite" || t.S.Kind != 1 {
		return nil
	}
	var x *Term
	seen := 0
	cur := t
	for cur.Op == "ite" {
		c := cur.Args[0]
		if c.Op != "=" {
			return nil
		}
		var v, k *Term
		if c.Args[0].IsConst() {
			k, v = c.Args[0], c.Args[1]
		} else if c.Args[1].IsConst() {
			k, v = c.Args[1], c.Args[0]
		} else {
			return nil
		}
		if x == nil {
			x = v
		} else if x != v {
			return nil
		}
		if !cur.Args[1].IsConst() || cur.Args[1].Val != k.Val || k.Val > 15 {
			return nil
		}
		seen |= 1 << k.Val
		cur = cur.Args[2]
	}
	if x == nil || !(x.Op == "bvand" && x.Args[1].IsConst() && x.Args[1].Val == 0xF) {
		return nil
	}
	// all of 0..15 covered, or 0..14 covered and the default leaf is 15
	if seen == 0xFFFF || (seen == 0x7FFF && cur.IsConst() && cur.Val == 15) {
		if x.S.W == t.S.W {
			return x
		}
		if x.S.W < t.S.W {
			return ZExt(x, t.S.W)
		}
		return Extract(t.S.W-1, 0, x)
	}
	return nil
}

// splitAdd views t as base + constant
func splitAdd(t *Term) (*Term, uint64) {
	if t.Op == "bvadd" && t.Args[1].IsConst() {
		return t.Args[0], t.Args[1].Val
	}
	return t, 0
}

func isLit(t *Term) bool { return t.IsConst() || t.Op == "strlit" }

func bin(op string, a, b *Term) *Term {
	w := a.S.W
	if a.S != b.S {
		panic(fmt.Sprintf("bv op %s sort mismatch %s vs %s", op, a.S, b.S))
	}
	if a.IsConst() && b.IsConst() {
		x, y := a.Val, b.Val
		var r uint64
		switch op {
		case "bvadd":
			r = x + y
		case "bvsub":
			r = x - y
		case "bvmul":
			r = x * y
		case "bvand":
			r = x & y
		case "bvor":
			r = x | y
		case "bvxor":
			r = x ^ y
		case "bvshl":
			if y >= uint64(w) {
				r = 0
			} else {
				r = x << y
			}
		case "bvlshr":
			if y >= uint64(w) {
				r = 0
			} else {
				r = x >> y
			}
		case "bvashr":
			sx := sext(x, w)
			if y >= uint64(w) {
				y = uint64(w - 1)
			}
			r = uint64(sx >> y)
		case "bvudiv":
			if y == 0 {
				r = mask(w)
			} else {
				r = x / y
			}
		case "bvurem":
			if y == 0 {
				r = x
			} else {
				r = x % y
			}
		case "bvsdiv":
			if y == 0 {
				goto nofold
			}
			{
				sx, sy := sext(x, w), sext(y, w)
				if sy == -1 {
					r = uint64(-sx)
				} else {
					r = uint64(sx / sy)
				}
			}
		case "bvsrem":
			if y == 0 {
				goto nofold
			}
			{
				sx, sy := sext(x, w), sext(y, w)
				if sy == -1 {
					r = 0
				} else {
					r = uint64(sx % sy)
				}
			}
		default:
			goto nofold
		}
		return Const(w, r)
	}
nofold:
	if b.IsConst() && iteLits(a, 40) {
		return mapIte(a, func(l *Term) *Term { return bin(op, l, b) })
	}
	if a.IsConst() && iteLits(b, 40) {
		return mapIte(b, func(l *Term) *Term { return bin(op, a, l) })
	}
	switch op {
	case "bvadd", "bvor", "bvxor":
		if a.IsConst() && a.Val == 0 {
			return b
		}
		if b.IsConst() && b.Val == 0 {
			return a
		}
	case "bvsub", "bvshl", "bvlshr":
		if b.IsConst() && b.Val == 0 {
			return a
		}
	case "bvand":
		if a.IsConst() && a.Val == 0 || b.IsConst() && b.Val == 0 {
			return Const(w, 0)
		}
		if a.IsConst() && a.Val == mask(w) {
			return b
		}
		if b.IsConst() && b.Val == mask(w) {
			return a
		}
	case "bvmul":
		if a.IsConst() && a.Val == 1 {
			return b
		}
		if b.IsConst() && b.Val == 1 {
			return a
		}
	}
	if op == "bvadd" || op == "bvor" || op == "bvxor" || op == "bvand" || op == "bvmul" {
		// commutative: canonical argument order; constants last
		if a.IsConst() && !b.IsConst() || (!a.IsConst() && !b.IsConst() && a.id > b.id) {
			a, b = b, a
		}
		// (x + c1) + c2 = x + (c1+c2)
		if op == "bvadd" && b.IsConst() && a.Op == "bvadd" && a.Args[1].IsConst() {
			return bin("bvadd", a.Args[0], Const(w, a.Args[1].Val+b.Val))
		}
	}
	if op == "bvsub" && b.IsConst() {
		return bin("bvadd", a, Const(w, -b.Val))
	}
	if op == "bvsub" {
		// (x + c1) - (x + c2) = c1 - c2
		ab, ac := splitAdd(a)
		bb, bc := splitAdd(b)
		if ab == bb {
			return Const(w, ac-bc)
		}
	}
	return mk(op, a.S, 0, "", 0, 0, a, b)
}
func cmp(op string, a, b *Term) *Term {
	if a.S != b.S {
		panic(fmt.Sprintf("cmp %s sort mismatch %s vs %s", op, a.S, b.S))
	}
	if a.IsConst() && b.IsConst() {
		w := a.S.W
		switch op {
		case "bvult":
			return BoolC(a.Val < b.Val)
		case "bvule":
			return BoolC(a.Val <= b.Val)
		case "bvslt":
			return BoolC(sext(a.Val, w) < sext(b.Val, w))
		case "bvsle":
			return BoolC(sext(a.Val, w) <= sext(b.Val, w))
		}
	}
	if a == b {
		return BoolC(op == "bvule" || op == "bvsle")
	}
	if b.IsConst() && iteLits(a, 40) {
		return mapIte(a, func(l *Term) *Term { return cmp(op, l, b) })
	}
	if a.IsConst() && iteLits(b, 40) {
		return mapIte(b, func(l *Term) *Term { return cmp(op, a, l) })
	}
	if op == "bvult" && b.IsConst() && b.Val == 0 {
		return tFalse
	}
	if op == "bvule" && a.IsConst() && a.Val == 0 {
		return tTrue
	}
	// canonical form: a <= b is written not(b < a), so that a test and its negation share one atom
	if op == "bvule" {
		return Not(cmp("bvult", b, a))
	}
	if op == "bvsle" {
		return Not(cmp("bvslt", b, a))
	}
	// c < zext(x) is false when c is at least the largest value x can take
	if op == "bvult" && b.Op == "zext" && a.IsConst() && a.Val >= mask(b.Args[0].S.W) {
		return tFalse
	}
	// zext(x) < 2^k with k >= width(x)
	if (op == "bvult" || op == "bvule") && a.Op == "zext" && b.IsConst() && b.Val > mask(a.Args[0].S.W) {
		return tTrue
	}
	if op == "bvule" && a.Op == "zext" && b.IsConst() && b.Val == mask(a.Args[0].S.W) {
		return tTrue
	}
	return mk(op, BoolS, 0, "", 0, 0, a, b)
}
func BvNot(a *Term) *Term {
	if a.IsConst() {
		return Const(a.S.W, ^a.Val)
	}
	if a.Op == "bvnot" {
		return a.Args[0]
	}
	return mk("bvnot", a.S, 0, "", 0, 0, a)
}
func BvNeg(a *Term) *Term { return bin("bvsub", Const(a.S.W, 0), a) }
func Extract(hi, lo int, a *Term) *Term {
	if lo == 0 && hi == a.S.W-1 {
		return a
	}
	if a.IsConst() {
		return Const(hi-lo+1, a.Val>>uint(lo))
	}
	if a.Op == "zext" && hi < a.Args[0].S.W {
		return Extract(hi, lo, a.Args[0])
	}
	if a.Op == "zext" && lo >= a.Args[0].S.W {
		return Const(hi-lo+1, 0)
	}
	if a.Op == "extract" {
		return Extract(hi+a.P2, lo+a.P2, a.Args[0])
	}
	if a.Op == "ite" && a.Args[1].IsConst() && a.Args[2].IsConst() {
		return Ite(a.Args[0], Extract(hi, lo, a.Args[1]), Extract(hi, lo, a.Args[2]))
	}
	if iteLits(a, 40) {
		return mapIte(a, func(l *Term) *Term { return Extract(hi, lo, l) })
	}
	return mk("extract", BV(hi-lo+1), 0, "", hi, lo, a)
}
func ZExt(a *Term, to int) *Term {
	if to == a.S.W {
		return a
	}
	if a.IsConst() {
		return Const(to, a.Val)
	}
	if a.Op == "zext" {
		return ZExt(a.Args[0], to)
	}
	if iteLits(a, 40) {
		return mapIte(a, func(l *Term) *Term { return ZExt(l, to) })
	}
	return mk("zext", BV(to), 0, "", to-a.S.W, 0, a)
}
func SExt(a *Term, to int) *Term {
	if to == a.S.W {
		return a
	}
	if a.IsConst() {
		return Const(to, uint64(sext(a.Val, a.S.W)))
	}
	return mk("sext", BV(to), 0, "", to-a.S.W, 0, a)
}
func Select(a, i *Term) *Term {
	if a.S.Idx != i.S {
		panic(fmt.Sprintf("Select index sort mismatch %s vs %s", a.S, i.S))
	}
	for {
		switch a.Op {
		case "store":
			e := Eq(a.Args[1], i)
			if e.IsTrue() {
				return a.Args[2]
			}
			if e.IsFalse() {
				a = a.Args[0]
				continue
			}
		case "constarr":
			return a.Args[0]
		case "lambda":
			if i.bound {
				// stay lazy under binders: β-reduce when the index becomes closed (keeps nested
				// definitional arrays linear in the number of updates)
				return mk("select", a.S.Elem, 0, "", 0, 0, a, i)
			}
			return SubstBound(a.Args[1], a.Args[0], i)
		case "ite":
			if a.Args[1].Op == "lambda" || a.Args[2].Op == "lambda" || a.Args[1].Op == "constarr" || a.Args[2].Op == "constarr" {
				return Ite(a.Args[0], Select(a.Args[1], i), Select(a.Args[2], i))
			}
			// merged arrays: read both sides when at least one read resolves (a value stored at exactly i)
			if !i.bound {
				r1, r2 := Select(a.Args[1], i), Select(a.Args[2], i)
				if r1.Op != "select" || r2.Op != "select" {
					return Ite(a.Args[0], r1, r2)
				}
			}
		}
		break
	}
	return mk("select", a.S.Elem, 0, "", 0, 0, a, i)
}
func Store(a, i, v *Term) *Term {
	if a.S.Idx != i.S || a.S.Elem != v.S {
		panic(fmt.Sprintf("Store sort mismatch %s [%s] := %s", a.S, i.S, v.S))
	}
	if a.Op == "store" && a.Args[1] == i {
		a = a.Args[0]
	}
	return mk("store", a.S, 0, "", 0, 0, a, i, v)
}
func ConstArr(s *Sort, v *Term) *Term { return mk("constarr", s, 0, "", 0, 0, v) }

// Lambda builds the array λ bv. body
func Lambda(bv *Term, body *Term) *Term {
	return mk("lambda", ArrS(bv.S, body.S), 0, "", 0, 0, bv, body)
}
func Forall(bv *Term, body *Term, pats ...*Term) *Term {
	if !body.bound {
		return body
	}
	return mk("forall", BoolS, 0, "", 0, 0, append([]*Term{bv, body}, pats...)...)
}
func Exists(bv *Term, body *Term) *Term { return Not(Forall(bv, Not(body))) }

// Apply is an application of an uninterpreted function symbol
func Apply(name string, ret *Sort, args ...*Term) *Term {
	return mk("apply", ret, 0, name, 0, 0, args...)
}

// StrLit is an interned string constant (distinct literals are distinct values)
func StrLit(s string) *Term { return mk("strlit", StrS, 0, s, 0, 0) }

// Subst replaces terms (by id) bottom-up through the smart constructors
func Subst(t *Term, sub map[int64]*Term) *Term {
	return rebuild(t, sub, map[int64]*Term{})
}

// SubstBound replaces one bound variable; subterms in which it does not occur free are shared, not rebuilt.
func SubstBound(t *Term, bv *Term, val *Term) *Term {
	return rebuildB(t, bv, val, map[int64]*Term{})
}

func hasFree(t *Term, name string) bool {
	for _, n := range t.fb {
		if n == name {
			return true
		}
	}
	return false
}

func rebuildB(t *Term, bv, val *Term, memo map[int64]*Term) *Term {
	if t == bv {
		return val
	}
	if !hasFree(t, bv.Name) {
		return t
	}
	if r, ok := memo[t.id]; ok {
		return r
	}
	as := make([]*Term, len(t.Args))
	changed := false
	for i, a := range t.Args {
		as[i] = rebuildB(a, bv, val, memo)
		if as[i] != a {
			changed = true
		}
	}
	r := t
	if changed {
		r = remake(t, as)
	}
	memo[t.id] = r
	return r
}

func rebuild(t *Term, sub map[int64]*Term, memo map[int64]*Term) *Term {
	if r, ok := sub[t.id]; ok {
		return r
	}
	if len(t.Args) == 0 {
		return t
	}
	if r, ok := memo[t.id]; ok {
		return r
	}
	as := make([]*Term, len(t.Args))
	changed := false
	for i, a := range t.Args {
		as[i] = rebuild(a, sub, memo)
		if as[i] != a {
			changed = true
		}
	}
	r := t
	if changed {
		r = remake(t, as)
	}
	memo[t.id] = r
	return r
}

func remake(t *Term, as []*Term) *Term {
	switch t.Op {
	case "not":
		return Not(as[0])
	case "and":
		return And(as...)
	case "ite":
		return Ite(as[0], as[1], as[2])
	case "=":
		return Eq(as[0], as[1])
	case "select":
		return Select(as[0], as[1])
	case "store":
		return Store(as[0], as[1], as[2])
	case "extract":
		return Extract(t.P1, t.P2, as[0])
	case "zext":
		return ZExt(as[0], t.S.W)
	case "sext":
		return SExt(as[0], t.S.W)
	case "bvnot":
		return BvNot(as[0])
	case "bvult", "bvule", "bvslt", "bvsle":
		return cmp(t.Op, as[0], as[1])
	case "constarr":
		return ConstArr(t.S, as[0])
	case "apply":
		return Apply(t.Name, t.S, as...)
	case "lambda":
		return Lambda(as[0], as[1])
	case "forall":
		return Forall(as[0], as[1], as[2:]...)
	}
	return bin(t.Op, as[0], as[1])
}

// SelectDeep pushes a read through stores and ites: select(store(a,i,v),k) = ite(i==k, v, select(a,k))
func SelectDeep(a, k *Term) *Term {
	switch a.Op {
	case "store":
		return Ite(Eq(a.Args[1], k), a.Args[2], SelectDeep(a.Args[0], k))
	case "ite":
		return Ite(a.Args[0], SelectDeep(a.Args[1], k), SelectDeep(a.Args[2], k))
	}
	return Select(a, k)
}

// collectSelects gathers select(arr, idx) terms reachable from roots
func collectSelects(roots []*Term) []*Term {
	seen := map[int64]bool{}
	var out []*Term
	var walk func(t *Term)
	walk = func(t *Term) {
		if seen[t.id] {
			return
		}
		seen[t.id] = true
		if t.Op == "select" {
			out = append(out, t)
		}
		for _, a := range t.Args {
			walk(a)
		}
	}
	for _, r := range roots {
		walk(r)
	}
	return out
}

// termSize counts distinct subterms
func termSize(roots ...*Term) int {
	seen := map[int64]bool{}
	var walk func(t *Term)
	walk = func(t *Term) {
		if seen[t.id] {
			return
		}
		seen[t.id] = true
		for _, a := range t.Args {
			walk(a)
		}
	}
	for _, r := range roots {
		walk(r)
	}
	return len(seen)
}

// orResolve simplifies a disjunction of conjunctions by resolution:
// (S ∧ x) ∨ (S ∧ ¬x) = S, repeated to a fixpoint.
func orResolve(cs [][]*Term) *Term {
	type conj map[int64]*Term
	var cur []conj
	for _, c := range cs {
		m := conj{}
		for _, t := range c {
			if t.Op == "and" {
				for _, a := range t.Args {
					m[a.id] = a
				}
			} else if !t.IsTrue() {
				m[t.id] = t
			}
		}
		cur = append(cur, m)
	}
	key := func(m conj) string {
		ids := make([]int64, 0, len(m))
		for id := range m {
			ids = append(ids, id)
		}
		sort.Slice(ids, func(i, j int) bool { return ids[i] < ids[j] })
		var sb strings.Builder
		for _, id := range ids {
			fmt.Fprintf(&sb, "%d,", id)
		}
		return sb.String()
	}
	changed := true
	for changed {
		changed = false
		seen := map[string]bool{}
		var nxt []conj
		for _, m := range cur {
			k := key(m)
			if !seen[k] {
				seen[k] = true
				nxt = append(nxt, m)
			}
		}
		cur = nxt
	outer:
		for i := 0; i < len(cur); i++ {
			for j := i + 1; j < len(cur); j++ {
				a, b := cur[i], cur[j]
				if len(a) != len(b) {
					continue
				}
				var pivot *Term
				ok := true
				for id, t := range a {
					if _, has := b[id]; has {
						continue
					}
					n := Not(t)
					if _, has := b[n.id]; has && pivot == nil {
						pivot = t
					} else {
						ok = false
						break
					}
				}
				if ok && pivot != nil {
					m := conj{}
					for id, t := range a {
						if id != pivot.id {
							m[id] = t
						}
					}
					cur[i] = m
					cur = append(cur[:j], cur[j+1:]...)
					changed = true
					break outer
				}
			}
		}
	}
	var ds []*Term
	for _, m := range cur {
		var ts []*Term
		for _, t := range m {
			ts = append(ts, t)
		}
		ds = append(ds, And(ts...))
	}
	return Or(ds...)
}
