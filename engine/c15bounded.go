package main

// C15, bounded stand-in for the part of the text listing that the VC generator cannot see: the "db $.., $.." text of
// data lines is assembled in a strings.Builder (modelled as a length counter only). The real EmitBytes / WriteTextTo
// are run natively (test injected into package asm with go test -overlay) for every block length 0..80 with and
// without a base address; the "; $AAAAAA" / "db ..." lines are parsed back and must give exactly the block's bytes,
// in order, at consecutive addresses in rows of 16. BOUNDED (162 programs); reported under coverage.bounded_checks.

import (
	"encoding/json"
	"fmt"
	"os"
	"strings"
)

func init() { drivers["C15"] = driveC15 }

const c15BoundedTest = `package asm

import (
	"bytes"
	"fmt"
	"strconv"
	"strings"
	"testing"
)

func snesvcDbCheck(n int, base uint32, setBase bool) string {
	buf := make([]byte, n+4)
	a := NewEmitter(buf, true)
	if setBase {
		a.SetBase(base)
	} else {
		base = 0
	}
	a.NOP()
	blk := make([]byte, n)
	for i := range blk {
		blk[i] = byte(i*7 + 3)
	}
	a.EmitBytes(blk)
	a.NOP()
	var tb bytes.Buffer
	if err := a.WriteTextTo(&tb); err != nil {
		return "WriteTextTo: " + err.Error()
	}
	var got []byte
	next := base + 1
	lines := strings.Split(tb.String(), "\n")
	for i, l := range lines {
		t := strings.TrimSpace(l)
		if !strings.HasPrefix(t, "db ") {
			continue
		}
		if i == 0 || !strings.HasPrefix(strings.TrimSpace(lines[i-1]), "; $") {
			return fmt.Sprintf("data line %d is not preceded by its address line", i)
		}
		ad, err := strconv.ParseUint(strings.TrimPrefix(strings.TrimSpace(lines[i-1]), "; $"), 16, 32)
		if err != nil || uint32(ad) != next {
			return fmt.Sprintf("data line %d shows address %s, its bytes sit at $%06x", i, strings.TrimSpace(lines[i-1]), next)
		}
		row := 0
		for _, tok := range strings.Split(strings.TrimPrefix(t, "db "), ",") {
			tok = strings.TrimSpace(tok)
			v, err := strconv.ParseUint(strings.TrimPrefix(tok, "$"), 16, 8)
			if err != nil || !strings.HasPrefix(tok, "$") {
				return fmt.Sprintf("data line %d: token %q", i, tok)
			}
			got = append(got, byte(v))
			row++
		}
		if row > 16 {
			return fmt.Sprintf("data line %d holds %d bytes", i, row)
		}
		next += uint32(row)
	}
	if !bytes.Equal(got, blk) {
		return fmt.Sprintf("data lines show % x, the block is % x", got, blk)
	}
	if !bytes.Equal(a.Bytes()[1:1+n], blk) {
		return "Bytes() does not hold the block"
	}
	return ""
}

func TestSnesvcDbText(t *testing.T) {
	n := 0
	for l := 0; l <= 80; l++ {
		for _, sb := range []bool{false, true} {
			n++
			if msg := snesvcDbCheck(l, 0x008000, sb); msg != "" {
				fmt.Printf("SNESVC_DB FAIL len=%d setBase=%v: %s\n", l, sb, msg)
				return
			}
		}
	}
	fmt.Printf("SNESVC_DB OK %d\n", n)
}
`

func driveC15(w *World, c *Checker) {
	out, _ := runOverlayTest(w, asmPath, c15BoundedTest, "^TestSnesvcDbText$")
	rec := map[string]interface{}{"what": "text of the data lines ('; $AAAAAA' + 'db $..') produced by EmitBytes / WriteTextTo versus the emitted block", "kind": "bounded",
		"bound": "block lengths 0..80, with and without SetBase($008000), one instruction before and after the block (162 programs)", "how": "real functions run natively, test injected with go test -overlay"}
	switch {
	case strings.Contains(out, "SNESVC_DB OK"):
		rec["result"] = "every data line parses back to the block's bytes at the right addresses"
	case strings.Contains(out, "SNESVC_DB FAIL"):
		line := out[strings.Index(out, "SNESVC_DB FAIL"):]
		if i := strings.IndexByte(line, '\n'); i > 0 {
			line = line[:i]
		}
		rec["result"] = line
		dir := "/verif/replays/" + c.Prop
		os.MkdirAll(dir, 0o755)
		path := dir + "/asm.EmitBytes-bounded-db-text.json"
		data, _ := json.MarshalIndent(map[string]interface{}{"property": c.Prop, "obligation": "asm.EmitBytes/WriteTextTo#bounded-db-text", "kind": "bounded", "confirmed": true, "failing_input_and_reason": line}, "", " ")
		os.WriteFile(path, data, 0o644)
		c.Violations = append(c.Violations, fmt.Sprintf("VIOLATION property=%s replay=%s obligation=asm.EmitBytes/WriteTextTo#bounded-db-text", c.Prop, path))
	default:
		rec["result"] = "the native run produced no verdict"
		c.Undecided = append(c.Undecided, "bounded db-text check did not run: "+tailStr(out, 400))
	}
	c.Extra["bounded_checks"] = []interface{}{rec}
}
