package main

// Harnesses: engine-built symbolic input states for lemma functions whose inputs cannot be described
// by a plain "every parameter is an independent symbolic value" (the CPU lemmas: a CPU wired to a bus
// that maps the whole 16 MiB address space to one flat RAM, with a concrete opcode at K:PC).

import (
	"fmt"
	"go/types"

	"golang.org/x/tools/go/ssa"
)

const (
	pkgCPU = repoPath + "/emulator/cpu65c816"
	pkgAlt = repoPath + "/emulator/cpualt"
	pkgBus = repoPath + "/emulator/bus"
	pkgMem = repoPath + "/emulator/memory"
)

var flagFields = []string{"N", "V", "M", "X", "D", "I", "Z", "C", "B", "E"}

func (x *Exec) harnessArgs(st *State, fn *ssa.Function, c *FnContract, op int) []Value {
	role := map[string]string{} // param name -> role
	for r, p := range c.HArgs {
		role[p] = r
	}
	w := x.w
	arrT := types.NewArray(types.Typ[types.Uint8], 1<<24)
	mem0 := x.freshVar("mem", ArrS(BV(64), BV(8)))
	args := make([]Value, len(fn.Params))
	byName := map[string]int{}
	for i, p := range fn.Params {
		byName[p.Name()] = i
	}
	get := func(cv StructV, t types.Type, n string) *Term { return cv.F[fieldIdx(t, n)].(Scalar).T }
	constrainFlags := func(cv StructV, t types.Type) {
		for _, f := range flagFields {
			st.Cond = append(st.Cond, cmp("bvule", get(cv, t, f), Const(8, 1)))
		}
		in := get(cv, t, "Interrupt")
		st.Cond = append(st.Cond, Not(Eq(in, Const(8, 2))), Not(Eq(in, Const(8, 3))))
	}
	pc24 := func(cv StructV, t types.Type) *Term {
		return ZExt(bin("bvor", bin("bvshl", ZExt(get(cv, t, "RK"), 32), Const(32, 16)), ZExt(get(cv, t, "PC"), 32)), 64)
	}
	newRAM := func(name string, content *Term) *Object {
		o := x.newObj(arrT, name)
		o.Input = true
		st.Heap[o.ID] = ArrayT{T: content, Len: 1 << 24, Elem: types.Typ[types.Uint8]}
		return o
	}
	// 65c816 CPU over a bus whose every segment is one RAM covering 0..2^24-1
	build65 := func(ram *Object, name string) (*Object, StructV) {
		cpuT := w.typ(pkgCPU, "CPU")
		busT := w.typ(pkgBus, "Bus")
		ramT := w.typ(pkgMem, "RAM")
		ramV := StructV{F: []Value{SliceV{Obj: ram, Off: Const(64, 0), Len: Const(64, 1<<24), Cap: Const(64, 1<<24)}, Scalar{Const(32, 0)}}}
		iv := x.makeIface(ramT, ramV)
		busObj := x.newObj(busT, name+".Bus")
		busObj.Input = true
		bv := x.sym(st, busT, name+".Bus").(StructV)
		bv.F[fieldIdx(busT, "segment")] = ArrayT{T: ConstArr(ArrS(BV(64), BV(32)), Const(32, uint64(iv.ID))), Len: 1 << 20, Elem: busT.Underlying().(*types.Struct).Field(fieldIdx(busT, "segment")).Type().Underlying().(*types.Array).Elem()}
		st.Heap[busObj.ID] = bv
		cpuObj := x.newObj(cpuT, name)
		cpuObj.Input = true
		cv := x.symNoPtr(st, cpuT, name)
		cv.F[fieldIdx(cpuT, "Bus")] = Ptr{Obj: busObj}
		constrainFlags(cv, cpuT)
		return cpuObj, cv
	}
	buildAlt := func(ram *Object, name string, constrain bool) (*Object, StructV) {
		altT := w.typ(pkgAlt, "CPU")
		abusT := w.typ(pkgAlt, "Bus")
		cpuObj := x.newObj(altT, name)
		cpuObj.Input = true
		cv := x.symNoPtr(st, altT, name)
		if constrain {
			constrainFlags(cv, altT)
		}
		rd := x.callOne(st, w.fn("lemmas", "FlatReader"), []Value{Ptr{Obj: ram}})
		wr := x.callOne(st, w.fn("lemmas", "FlatWriter"), []Value{Ptr{Obj: ram}})
		ab := cv.F[fieldIdx(altT, "Bus")].(StructV)
		nab := StructV{F: append([]Value(nil), ab.F...)}
		refArr := func(v Value, elem types.Type) Value {
			return ArrayT{T: ConstArr(ArrS(BV(64), BV(32)), x.refOf(v)), Len: 1 << 20, Elem: elem}
		}
		bst := abusT.Underlying().(*types.Struct)
		nab.F[fieldIdx(abusT, "Read")] = refArr(rd, bst.Field(fieldIdx(abusT, "Read")).Type().Underlying().(*types.Array).Elem())
		nab.F[fieldIdx(abusT, "Write")] = refArr(wr, bst.Field(fieldIdx(abusT, "Write")).Type().Underlying().(*types.Array).Elem())
		cv.F[fieldIdx(altT, "Bus")] = nab
		return cpuObj, cv
	}
	finishAlt := func(cpuObj *Object, cv StructV) {
		st.Heap[cpuObj.ID] = cv
		// the opcode table is what the real createTable builds for this instance
		outs := x.Call(st, w.method(pkgAlt, "CPU", "createTable"), []Value{Ptr{Obj: cpuObj}}, nil, 1, "harness")
		if len(outs) != 1 || outs[0].Kind != oReturn {
			fail("harness: createTable did not run cleanly")
		}
		*st = *outs[0].St
	}
	opTerm := Const(8, uint64(op))
	switch c.Harness {
	case "flat65", "flatalt":
		isAlt := c.Harness == "flatalt"
		ram := newRAM("ram", mem0)
		var cpuObj *Object
		var cv StructV
		var t types.Type
		if isAlt {
			cpuObj, cv = buildAlt(ram, "cpu", true)
			t = w.typ(pkgAlt, "CPU")
		} else {
			cpuObj, cv = build65(ram, "cpu")
			t = w.typ(pkgCPU, "CPU")
		}
		content := mem0
		if op >= 0 {
			content = Store(mem0, pc24(cv, t), opTerm)
		}
		st.Heap[ram.ID] = ArrayT{T: content, Len: 1 << 24, Elem: types.Typ[types.Uint8]}
		if isAlt {
			finishAlt(cpuObj, cv)
		} else {
			st.Heap[cpuObj.ID] = cv
		}
		args[byName[c.HArgs["cpu"]]] = Ptr{Obj: cpuObj}
		if p, ok := c.HArgs["ram"]; ok {
			args[byName[p]] = Ptr{Obj: ram}
		}
		if p, ok := c.HArgs["ram2"]; ok {
			r2 := newRAM("ram2", content)
			args[byName[p]] = Ptr{Obj: r2}
		}
	case "flatboth":
		ram1 := newRAM("ram1", mem0)
		ram2 := newRAM("ram2", mem0)
		cpuT := w.typ(pkgCPU, "CPU")
		altT := w.typ(pkgAlt, "CPU")
		aObj, av := build65(ram1, "cpu")
		bObj, bv := buildAlt(ram2, "alt", false)
		// same architectural and emulator state
		ast := altT.Underlying().(*types.Struct)
		for i := 0; i < ast.NumFields(); i++ {
			n := ast.Field(i).Name()
			if n == "Bus" || n == "instructions" || !hasField(cpuT, n) {
				continue
			}
			bv.F[i] = av.F[fieldIdx(cpuT, n)]
		}
		// bus debug byte of the alternative interpreter is free; both share one (arbitrary) OnPC map and OnWDM hook
		content := mem0
		if op >= 0 {
			content = Store(mem0, pc24(av, cpuT), opTerm)
		}
		st.Heap[ram1.ID] = ArrayT{T: content, Len: 1 << 24, Elem: types.Typ[types.Uint8]}
		st.Heap[ram2.ID] = ArrayT{T: content, Len: 1 << 24, Elem: types.Typ[types.Uint8]}
		st.Heap[aObj.ID] = av
		finishAlt(bObj, bv)
		args[byName[c.HArgs["a"]]] = Ptr{Obj: aObj}
		args[byName[c.HArgs["b"]]] = Ptr{Obj: bObj}
		if p, ok := c.HArgs["ram1"]; ok {
			args[byName[p]] = Ptr{Obj: ram1}
		}
		if p, ok := c.HArgs["ram2"]; ok {
			args[byName[p]] = Ptr{Obj: ram2}
		}
	default:
		fail("unknown harness %q", c.Harness)
	}
	if p, ok := c.HArgs["op"]; ok {
		if op < 0 {
			fail("harness %s: op parameter without opcode enumeration", c.Harness)
		}
		args[byName[p]] = Scalar{opTerm}
	}
	for i, a := range args {
		if a == nil {
			args[i] = x.sym(st, fn.Params[i].Type(), fn.Params[i].Name())
		}
	}
	return args
}

// symNoPtr: symbolic struct; pointer / map / func fields start as typed unknowns chosen by the harness
func (x *Exec) symNoPtr(st *State, t types.Type, name string) StructV {
	u := t.Underlying().(*types.Struct)
	s := StructV{}
	for i := 0; i < u.NumFields(); i++ {
		ft := u.Field(i).Type()
		fname := name + "." + u.Field(i).Name()
		switch ft.Underlying().(type) {
		case *types.Pointer:
			s.F = append(s.F, Ptr{})
		default:
			if u.Field(i).Name() == "instructions" {
				s.F = append(s.F, x.zero(ft))
				continue
			}
			s.F = append(s.F, x.sym(st, ft, fname))
		}
	}
	return s
}

func (x *Exec) callOne(st *State, fn *ssa.Function, args []Value) Value {
	outs := x.Call(st, fn, args, nil, 1, "harness")
	if len(outs) != 1 || outs[0].Kind != oReturn {
		fail("harness: call of %s did not return cleanly", fn.Name())
	}
	*st = *outs[0].St
	return outs[0].Ret
}

func opList(spec string) []int {
	var ops []int
	if spec == "" || spec == "all" {
		for i := 0; i < 256; i++ {
			ops = append(ops, i)
		}
		return ops
	}
	var v int
	for _, f := range splitTop(spec, ',') {
		fmt.Sscanf(f, "%x", &v)
		ops = append(ops, v)
	}
	return ops
}
