package main

// Loading /repo (+ /verif/spec, /verif/lemmas) through go/packages and go/ssa, running package
// initialisers symbolically, post-dominators, stable instruction-site names.

import (
	"fmt"
	"go/ast"
	"go/types"
	"os"
	"sort"
	"strings"
	"sync"

	"golang.org/x/tools/go/packages"
	"golang.org/x/tools/go/ssa"
	"golang.org/x/tools/go/ssa/ssautil"
)

const repoPath = "github.com/alttpo/snes"

type World struct {
	prog    *ssa.Program
	pkgs    map[string]*ssa.Package
	ppkgs   map[string]*packages.Package
	mu      sync.Mutex
	globals map[*ssa.Global]*Object
	gobjs   map[int]*Object
	gifaces map[int]IfaceV
	GHeap   map[int]Value
	gnext   int
	inInit  bool
	pdoms   map[*ssa.Function][]int
	sites   map[*ssa.Function]map[ssa.Instruction]string
	// contracts keyed by function name as written in the contract files
	contracts map[string]*FnContract
	cfiles    []string
	// methods of unknown receivers that are trusted to be pure functions of (receiver, args)
	pureMethods map[string]bool
	repoDir     string
}

func loadWorld(extra ...string) *World {
	dir := os.Getenv("SNESVC_DIR")
	if dir == "" {
		dir = "/verif"
	}
	cfg := &packages.Config{Mode: packages.LoadAllSyntax, Dir: dir, BuildFlags: []string{"-tags=verif"},
		Env: append(os.Environ(), "GOFLAGS=-mod=mod", "GOPROXY=off", "GOSUMDB=off", "GOTOOLCHAIN=local")}
	pats := append([]string{repoPath + "/...", "verif/spec/...", "verif/lemmas/..."}, extra...)
	pkgs, err := packages.Load(cfg, pats...)
	if err != nil {
		fmt.Fprintln(os.Stderr, "load:", err)
		os.Exit(3)
	}
	if packages.PrintErrors(pkgs) > 0 {
		fmt.Fprintln(os.Stderr, "UNDECIDED: the tree does not build")
		os.Exit(3)
	}
	prog, spkgs := ssautil.AllPackages(pkgs, ssa.GlobalDebug)
	prog.Build()
	w := &World{prog: prog, pkgs: map[string]*ssa.Package{}, ppkgs: map[string]*packages.Package{},
		globals: map[*ssa.Global]*Object{}, gobjs: map[int]*Object{}, gifaces: map[int]IfaceV{}, GHeap: map[int]Value{},
		pdoms: map[*ssa.Function][]int{}, sites: map[*ssa.Function]map[ssa.Instruction]string{},
		contracts: map[string]*FnContract{}, pureMethods: map[string]bool{}, repoDir: "/repo"}
	for i, p := range spkgs {
		if p != nil {
			w.pkgs[p.Pkg.Path()] = p
			w.ppkgs[p.Pkg.Path()] = pkgs[i]
		}
	}
	packages.Visit(pkgs, nil, func(p *packages.Package) {
		if _, ok := w.ppkgs[p.PkgPath]; !ok {
			w.ppkgs[p.PkgPath] = p
		}
		if sp := prog.Package(p.Types); sp != nil {
			w.pkgs[p.PkgPath] = sp
		}
	})
	w.loadContracts()
	w.runInits()
	return w
}

func (w *World) isOurs(path string) bool {
	return strings.HasPrefix(path, repoPath) || strings.HasPrefix(path, "verif/")
}

func (w *World) runInits() {
	x := NewExec(w)
	x.nextObj = 1000
	x.nextIf = 1 << 16
	w.inInit = true
	st := NewState()
	var paths []string
	for path := range w.pkgs {
		if w.isOurs(path) {
			paths = append(paths, path)
		}
	}
	sort.Strings(paths)
	// dependencies first: util before mappers etc. — run in import order
	done := map[string]bool{}
	var visit func(path string)
	visit = func(path string) {
		if done[path] || !w.isOurs(path) {
			return
		}
		done[path] = true
		if pp := w.ppkgs[path]; pp != nil {
			var imps []string
			for ip := range pp.Imports {
				imps = append(imps, ip)
			}
			sort.Strings(imps)
			for _, ip := range imps {
				visit(ip)
			}
		}
		p := w.pkgs[path]
		if p == nil {
			return
		}
		outs := x.Call(st, p.Func("init"), nil, nil, 0, "init")
		if len(outs) != 1 || outs[0].Kind != oReturn {
			fail("init of %s did not run cleanly", path)
		}
		st = outs[0].St
	}
	for _, path := range paths {
		visit(path)
	}
	w.inInit = false
	// package-level error values of the standard library (io.EOF, io.ErrUnexpectedEOF, ...) are distinct,
	// non-nil, immutable error objects
	for fn := range ssautil.AllFunctions(w.prog) {
		if fn.Pkg == nil || !w.isOurs(fn.Pkg.Pkg.Path()) {
			continue
		}
		for _, b := range fn.Blocks {
			for _, ins := range b.Instrs {
				for _, op := range ins.Operands(nil) {
					g, ok := (*op).(*ssa.Global)
					if !ok || g.Pkg == nil || w.isOurs(g.Pkg.Pkg.Path()) {
						continue
					}
					et := g.Type().(*types.Pointer).Elem()
					if et.String() != "error" {
						continue
					}
					o := w.globalObj(g)
					if _, done := st.Heap[o.ID]; done {
						continue
					}
					eo := x.newObj(types.Typ[types.Int], "error:"+g.Pkg.Pkg.Name()+"."+g.Name())
					st.Heap[eo.ID] = Scalar{Const(64, 0)}
					st.Heap[o.ID] = IfaceV{Dyn: types.NewPointer(types.Typ[types.Int]), V: Ptr{Obj: eo}}
				}
			}
		}
	}
	w.GHeap = st.Heap
	for id, o := range x.objs {
		w.gobjs[id] = o
	}
	for id, iv := range x.ifaceReg {
		w.gifaces[id] = iv
	}
}

func (w *World) globalObj(g *ssa.Global) *Object {
	w.mu.Lock()
	defer w.mu.Unlock()
	if o, ok := w.globals[g]; ok {
		return o
	}
	w.gnext++
	o := &Object{ID: w.gnext, Typ: g.Type().(*types.Pointer).Elem(), Name: "global:" + g.Pkg.Pkg.Name() + "." + g.Name()}
	w.globals[g] = o
	w.gobjs[o.ID] = o
	return o
}

func (w *World) fn(pkg, name string) *ssa.Function {
	p := w.pkg(pkg)
	if f := p.Func(name); f != nil {
		return f
	}
	fail("no func %s.%s", pkg, name)
	return nil
}

func (w *World) pkg(pkg string) *ssa.Package {
	for _, cand := range []string{pkg, repoPath + "/" + pkg, "verif/" + pkg} {
		if p := w.pkgs[cand]; p != nil {
			return p
		}
	}
	if pkg == "snes" || pkg == "" {
		return w.pkgs[repoPath]
	}
	fail("no package %s", pkg)
	return nil
}

func (w *World) method(pkg, typ, name string) *ssa.Function {
	p := w.pkg(pkg)
	tm := p.Type(typ)
	if tm == nil {
		fail("no type %s.%s", pkg, typ)
	}
	t := tm.Type()
	for _, tt := range []types.Type{t, types.NewPointer(t)} {
		ms := w.prog.MethodSets.MethodSet(tt)
		for i := 0; i < ms.Len(); i++ {
			if ms.At(i).Obj().Name() == name {
				f := w.prog.MethodValue(ms.At(i))
				if f != nil && f.Synthetic == "" {
					return f
				}
				if f != nil && tt == types.NewPointer(t) {
					// wrapper for a value-receiver method: return the underlying method
					ms2 := w.prog.MethodSets.MethodSet(t)
					for j := 0; j < ms2.Len(); j++ {
						if ms2.At(j).Obj().Name() == name {
							return w.prog.MethodValue(ms2.At(j))
						}
					}
					return f
				}
			}
		}
	}
	fail("no method %s.%s.%s", pkg, typ, name)
	return nil
}

func (w *World) typ(pkg, name string) types.Type {
	p := w.pkg(pkg)
	tm := p.Type(name)
	if tm == nil {
		fail("no type %s.%s", pkg, name)
	}
	return tm.Type()
}

// ---- post-dominators ----
func (w *World) pdom(fn *ssa.Function) []int {
	w.mu.Lock()
	defer w.mu.Unlock()
	if r, ok := w.pdoms[fn]; ok {
		return r
	}
	n := len(fn.Blocks)
	exit := n
	// reversed graph: edges succ -> pred ; exit -> terminal blocks
	rsucc := make([][]int, n+1) // successors in reversed graph
	rpred := make([][]int, n+1) // predecessors in reversed graph (= successors in CFG)
	for _, b := range fn.Blocks {
		if len(b.Succs) == 0 {
			rsucc[exit] = append(rsucc[exit], b.Index)
			rpred[b.Index] = append(rpred[b.Index], exit)
		}
		for _, s := range b.Succs {
			rsucc[s.Index] = append(rsucc[s.Index], b.Index)
			rpred[b.Index] = append(rpred[b.Index], s.Index)
		}
	}
	// postorder DFS from exit on reversed graph
	order := []int{}
	seen := make([]bool, n+1)
	var dfs func(v int)
	dfs = func(v int) {
		seen[v] = true
		for _, s := range rsucc[v] {
			if !seen[s] {
				dfs(s)
			}
		}
		order = append(order, v)
	}
	dfs(exit)
	ponum := make([]int, n+1)
	for i := range ponum {
		ponum[i] = -1
	}
	for i, v := range order {
		ponum[v] = i
	}
	idom := make([]int, n+1)
	for i := range idom {
		idom[i] = -1
	}
	idom[exit] = exit
	intersect := func(a, b int) int {
		for a != b {
			for ponum[a] < ponum[b] {
				a = idom[a]
			}
			for ponum[b] < ponum[a] {
				b = idom[b]
			}
		}
		return a
	}
	changed := true
	for changed {
		changed = false
		for i := len(order) - 2; i >= 0; i-- {
			v := order[i]
			nw := -1
			for _, p := range rpred[v] {
				if idom[p] == -1 {
					continue
				}
				if nw == -1 {
					nw = p
				} else {
					nw = intersect(p, nw)
				}
			}
			if nw != -1 && idom[v] != nw {
				idom[v] = nw
				changed = true
			}
		}
	}
	w.pdoms[fn] = idom
	return idom
}

// ipdom returns the immediate post-dominator of b, or nil when it is the function exit
func (w *World) ipdom(fn *ssa.Function, b *ssa.BasicBlock) *ssa.BasicBlock {
	d := w.pdom(fn)
	i := d[b.Index]
	if i < 0 || i >= len(fn.Blocks) {
		return nil
	}
	return fn.Blocks[i]
}

// postDominates: a post-dominates b (a != b required for strictness by callers)
func (w *World) postDominates(fn *ssa.Function, a, b *ssa.BasicBlock) bool {
	d := w.pdom(fn)
	n := len(fn.Blocks)
	for v := b.Index; v >= 0 && v < n; {
		if v == a.Index {
			return true
		}
		nv := d[v]
		if nv == v {
			break
		}
		v = nv
	}
	return false
}

// ---- instruction sites: "<kind><ordinal>" within the function, in block/instruction order ----
func (w *World) siteOf(fn *ssa.Function, ins ssa.Instruction) string {
	w.mu.Lock()
	defer w.mu.Unlock()
	m, ok := w.sites[fn]
	if !ok {
		m = map[ssa.Instruction]string{}
		cnt := map[string]int{}
		for _, b := range fn.Blocks {
			for _, in := range b.Instrs {
				k := siteKind(in)
				if k == "" {
					continue
				}
				cnt[k]++
				m[in] = fmt.Sprintf("%s%d", k, cnt[k])
			}
		}
		w.sites[fn] = m
	}
	if s, ok := m[ins]; ok {
		return s
	}
	return "?"
}

func siteKind(in ssa.Instruction) string {
	switch v := in.(type) {
	case *ssa.Call:
		if c := v.Call.StaticCallee(); c != nil {
			return "call:" + c.Name() + ":"
		}
		if v.Call.IsInvoke() {
			return "invoke:" + v.Call.Method.Name() + ":"
		}
		return "call:"
	case *ssa.IndexAddr:
		return "index"
	case *ssa.Index:
		return "index"
	case *ssa.Lookup:
		return "lookup"
	case *ssa.Slice:
		return "slice"
	case *ssa.BinOp:
		if v.Op.String() == "/" || v.Op.String() == "%" {
			return "div"
		}
	case *ssa.UnOp:
		if v.Op.String() == "*" {
			return "load"
		}
	case *ssa.Store:
		return "store"
	case *ssa.FieldAddr:
		return "field"
	case *ssa.Panic:
		return "panic"
	case *ssa.TypeAssert:
		return "assert"
	case *ssa.MakeSlice:
		return "make"
	case *ssa.MapUpdate:
		return "mapupdate"
	}
	return ""
}

// loopHeaders in block order; each with the source-level fingerprint of its induction / ranged names
func loopHeaders(fn *ssa.Function) []*ssa.BasicBlock {
	var hs []*ssa.BasicBlock
	for _, b := range fn.Blocks {
		for _, p := range b.Preds {
			if b.Dominates(p) {
				hs = append(hs, b)
				break
			}
		}
	}
	return hs
}

var _ = ast.Inspect
