package main

// Discharging obligations (batched, parallel, portfolio), known findings, evidence and violation reports.

import (
	"encoding/json"
	"fmt"
	"os"
	"path/filepath"
	"sort"
	"strings"
	"sync"
	"time"
)

type ObResult struct {
	Name    string   `json:"obligation"`
	Kind    string   `json:"kind"`
	Result  string   `json:"result"` // discharged | trivial | violated | undecided | known
	Backend string   `json:"backend,omitempty"`
	Seconds float64  `json:"seconds"`
	Size    int      `json:"size,omitempty"`
	Tried   []string `json:"tried,omitempty"`
	Model   map[string]uint64 `json:"model,omitempty"`
	Output  string   `json:"solver_output,omitempty"`
	ob      *Oblig
	vars    []*Term
}

type Checker struct {
	Prop      string
	Tier      string
	Seed      int
	Start     time.Time
	Results   []ObResult
	Functions map[string]string // function -> "contract" | "summarised" | "trusted" | "modular"
	Assump    []string
	Trusted   map[string]int
	Notes     []string
	Violations []string
	Known      []string
	Undecided  []string
	mu        sync.Mutex
	Extra     map[string]interface{}
	allBackends bool
	noSafety    bool
	// obligations that ran out of time while the machine was busy are decided again at the end, one at a time
	// and with three times the time limits, before a verdict is given
	retry   []Oblig
	retryMu sync.Mutex
	tmul    int
}

func NewChecker(prop, tier string, seed int) *Checker {
	return &Checker{Prop: prop, Tier: tier, Seed: seed, Start: time.Now(), Functions: map[string]string{}, Trusted: map[string]int{}, Extra: map[string]interface{}{}, allBackends: tier == "thorough"}
}

// inputVars collects the terms whose model values describe a counterexample: scalar free variables,
// and reads of input arrays (for a read at a symbolic index the index term is requested too).
func inputVars(roots ...*Term) []*Term {
	seen := map[int64]bool{}
	var out []*Term
	var walk func(t *Term)
	walk = func(t *Term) {
		if seen[t.id] {
			return
		}
		seen[t.id] = true
		if t.Op == "var" && (t.S.Kind == 0 || t.S.Kind == 1) {
			out = append(out, t)
		}
		if t.Op == "select" && !t.bound && t.S.Kind <= 1 && t.Args[1].S.Kind == 1 {
			// read of an input array, possibly through later stores: ask for the INITIAL content at that index
			var bases func(a *Term, depth int)
			bases = func(a *Term, depth int) {
				if depth > 64 {
					return
				}
				switch a.Op {
				case "store":
					bases(a.Args[0], depth+1)
				case "ite":
					bases(a.Args[1], depth+1)
					bases(a.Args[2], depth+1)
				case "var":
					bt := Select(a, t.Args[1])
					if bt.Op == "select" && !seen[-bt.id] {
						seen[-bt.id] = true
						out = append(out, bt)
					}
				}
			}
			bases(t.Args[0], 0)
		}
		for _, a := range t.Args {
			walk(a)
		}
	}
	for _, r := range roots {
		walk(r)
	}
	sort.Slice(out, func(i, j int) bool { return termLabel(out[i]) < termLabel(out[j]) })
	if len(out) > 4000 {
		out = out[:4000]
	}
	return out
}

// modelTerms expands the input terms into the get-value list (select → index, value)
func modelTerms(vars []*Term) []*Term {
	var out []*Term
	for _, v := range vars {
		if v.Op == "select" {
			out = append(out, v.Args[1])
		}
		out = append(out, v)
	}
	return out
}

func buildModel(vars []*Term, vals []uint64) map[string]uint64 {
	m := map[string]uint64{}
	k := 0
	for _, v := range vars {
		if v.Op == "select" {
			if k+1 >= len(vals) {
				break
			}
			m[fmt.Sprintf("%s[%#x]", v.Args[0].Name, vals[k])] = vals[k+1]
			k += 2
			continue
		}
		if k >= len(vals) {
			break
		}
		m[v.Name] = vals[k]
		k++
	}
	return m
}

func termLabel(t *Term) string {
	switch t.Op {
	case "var":
		return t.Name
	case "select":
		return fmt.Sprintf("%s[t%d]", t.Args[0].Name, t.Args[1].id)
	}
	return fmt.Sprintf("t%d", t.id)
}

// Discharge decides a set of obligations. Obligations are first tried as one batch per group
// (OR of the negations): the common case is a single unsat answer for the whole group.
func (c *Checker) Discharge(obs []Oblig, group string) {
	var covers, rest []Oblig
	for _, o := range obs {
		if o.Kind == "cover" {
			covers = append(covers, o)
		} else {
			rest = append(rest, o)
		}
	}
	var wg sync.WaitGroup
	for i := range covers {
		o := covers[i]
		wg.Add(1)
		go func() {
			defer wg.Done()
			c.cover(o)
		}()
	}
	const batch = 24
	for i := 0; i < len(rest); i += batch {
		j := i + batch
		if j > len(rest) {
			j = len(rest)
		}
		part := rest[i:j]
		wg.Add(1)
		go func() {
			defer wg.Done()
			c.batch(part)
		}()
	}
	wg.Wait()
}

func (c *Checker) add(r ObResult) {
	c.mu.Lock()
	c.Results = append(c.Results, r)
	c.mu.Unlock()
}

func (c *Checker) cover(o Oblig) {
	q := SMTQuery([]*Term{o.PC}, nil)
	r := Solve(q, false)
	res := ObResult{Name: o.Name, Kind: o.Kind, Backend: r.Backend, Seconds: r.Seconds, Tried: r.Tried, Size: len(q.Text)}
	switch r.Result {
	case "sat":
		res.Result = "discharged"
	case "unsat":
		res.Result = "violated"
		res.Output = "vacuous: the precondition / case condition is unsatisfiable"
	default:
		// no model and no refutation of the whole path condition. The proving pipeline, however, first works on the
		// instantiated, quantifier-free weakening of the hypotheses: if THAT is already contradictory, every
		// obligation under this path condition is discharged vacuously — refuted after all.
		if g := withInstHints(o.PC, true); g != o.PC {
			if rg := solve2(SMTQuery([]*Term{g}, nil), 3*time.Second); rg.Result == "unsat" {
				res.Result = "violated"
				res.Backend = rg.Backend
				res.Output = "vacuous: the instantiated path condition is unsatisfiable"
				break
			}
		}
		// the vacuity guard fails only on a REFUTED path condition; with quantified invariants in the path
		// condition the solvers may not be able to exhibit a model — recorded, not an alarm
		res.Result = "discharged"
		res.Backend = "cover-not-refuted"
		c.mu.Lock()
		c.Notes = append(c.Notes, "cover "+o.Name+": path condition not refuted, but no model found ("+r.Result+")")
		c.mu.Unlock()
	}
	oo := o
	res.ob = &oo
	c.add(res)
}

func (c *Checker) batch(obs []Oblig) {
	var live []Oblig
	for _, o := range obs {
		if o.Cond.IsTrue() || o.PC.IsFalse() {
			c.add(ObResult{Name: o.Name, Kind: o.Kind, Result: "trivial"})
			continue
		}
		if o.SplitT != nil {
			oo := o
			c.splitOb(oo)
			continue
		}
		live = append(live, o)
	}
	if len(live) == 0 {
		return
	}
	quant := false
	for _, o := range live {
		if hasQuant(o.PC, o.Cond) {
			quant = true // a batch of quantified goals is rarely decided whole: go straight to the single goals
			break
		}
	}
	if len(live) > 1 && !quant && os.Getenv("SNESVC_NOBATCH") == "" {
		var ds []*Term
		for _, o := range live {
			ds = append(ds, And(o.PC, Not(o.Cond)))
		}
		q := SMTQuery([]*Term{Or(ds...)}, nil)
		r := solveT(q, c.allBackends, 3*time.Second) // the batch is an optimisation: give up early, decide singly
		if r.Result == "unsat" {
			for _, o := range live {
				c.add(ObResult{Name: o.Name, Kind: o.Kind, Result: "discharged", Backend: r.Backend + "(batch)", Seconds: r.Seconds / float64(len(live)), Tried: r.Tried, Size: len(q.Text) / len(live)})
			}
			return
		}
	}
	var wg sync.WaitGroup
	for i := range live {
		o := live[i]
		wg.Add(1)
		go func() {
			defer wg.Done()
			c.single(o)
		}()
	}
	wg.Wait()
}

// tmo scales a time limit for the uncontended second pass
func (c *Checker) tmo(d time.Duration) time.Duration {
	if c.tmul > 1 {
		return d * time.Duration(c.tmul)
	}
	return d
}

// RunRetries decides the obligations that timed out in the parallel phase again, with the machine to themselves
func (c *Checker) RunRetries() {
	c.retryMu.Lock()
	todo := c.retry
	c.retry = nil
	c.retryMu.Unlock()
	if len(todo) == 0 {
		return
	}
	c.tmul = 3
	c.mu.Lock()
	c.Notes = append(c.Notes, fmt.Sprintf("%d obligation(s) ran out of time in the parallel phase and were decided again sequentially with 3x time limits", len(todo)))
	c.mu.Unlock()
	sem := make(chan struct{}, 2)
	var wg sync.WaitGroup
	for i := range todo {
		o := todo[i]
		wg.Add(1)
		go func() {
			defer wg.Done()
			sem <- struct{}{}
			defer func() { <-sem }()
			c.single(o)
		}()
	}
	wg.Wait()
}

func (c *Checker) single(o Oblig) {
	vars := inputVars(o.PC, o.Cond)
	if os.Getenv("SNESVC_DEBUG") != "" {
		for _, v := range vars {
			fmt.Fprintf(os.Stderr, "DBG %s var %s op=%s\n", o.Name, termLabel(v), v.Op)
		}
	}
	// quantified hypotheses are also given instantiated at the goal's skolem constants (sound: and(H) = and(H, H[sk]));
	// first with the quantified originals left out (weaker hypotheses: only unsat is conclusive)
	full := And(o.PC, Not(o.Cond))
	ground := withInstHints(full, true)
	var qg *Query
	if ground != full {
		qg = SMTQuery([]*Term{ground}, nil)
		if d := os.Getenv("SNESVC_DUMP"); d != "" && strings.Contains(o.Name, d) {
			os.WriteFile("/tmp/dumpg_"+sanitizeFile(o.Name)+".smt2", []byte(qg.Text), 0o644)
		}
		if rg := solve2(qg, c.tmo(3*time.Second)); rg.Result == "unsat" {
			oo := o
			c.add(ObResult{Name: o.Name, Kind: o.Kind, Result: "discharged", Backend: rg.Backend + " (quantified hypotheses only as instances at the goal's skolem constants)", Seconds: rg.Seconds, Size: len(qg.Text), ob: &oo})
			return
		}
		// second matching round on the instances of the first
		if g2 := withInstHintsR(full, true, 2); g2 != ground {
			qg2 := SMTQuery([]*Term{g2}, nil)
			if d := os.Getenv("SNESVC_DUMP"); d != "" && strings.Contains(o.Name, d) {
				os.WriteFile("/tmp/dumpg2_"+sanitizeFile(o.Name)+".smt2", []byte(qg2.Text), 0o644)
			}
			if rg := solve2(qg2, c.tmo(3*time.Second)); rg.Result == "unsat" {
				oo := o
				c.add(ObResult{Name: o.Name, Kind: o.Kind, Result: "discharged", Backend: rg.Backend + " (quantified hypotheses only as instances, two matching rounds)", Seconds: rg.Seconds, Size: len(qg2.Text), ob: &oo})
				return
			}
			qg = qg2
		}
	}
	// a goal merged from several paths (a conjunction of implications) is decided path by path
	if o.Cond.Op == "and" && len(o.Cond.Args) >= 2 && len(o.Cond.Args) <= 16 && o.Cond.bound == false && hasQuant(o.PC, o.Cond) {
		okAll := true
		var secs float64
		var mu sync.Mutex
		var wg sync.WaitGroup
		for _, ci := range o.Cond.Args {
			ci := ci
			wg.Add(1)
			go func() {
				defer wg.Done()
				fi := And(o.PC, Not(ci))
				r := solveT(SMTQuery([]*Term{withInstHints(fi, true)}, nil), false, c.tmo(quickTimeout))
				if r.Result != "unsat" {
					r = solveT(SMTQuery([]*Term{withInstHints(fi, false)}, nil), false, c.tmo(quickTimeout))
				}
				mu.Lock()
				secs += r.Seconds
				if r.Result != "unsat" {
					okAll = false
				}
				mu.Unlock()
			}()
		}
		wg.Wait()
		if okAll {
			oo := o
			c.add(ObResult{Name: o.Name, Kind: o.Kind, Result: "discharged", Backend: fmt.Sprintf("portfolio (decided per path, %d paths)", len(o.Cond.Args)), Seconds: secs, ob: &oo})
			return
		}
	}
	if !c.allBackends {
		// cheap first attempt on one back end without model extraction; the race is for the hard ones
		q0 := SMTQuery([]*Term{o.PC, Not(o.Cond)}, nil)
		if d := os.Getenv("SNESVC_DUMP"); d != "" && strings.Contains(o.Name, d) {
			os.WriteFile("/tmp/dump0_"+sanitizeFile(o.Name)+".smt2", []byte(q0.Text), 0o644)
		}
		if r0 := runSolver("z3-new", q0, c.tmo(3*time.Second)); r0.Result == "unsat" {
			oo := o
			c.add(ObResult{Name: o.Name, Kind: o.Kind, Result: "discharged", Backend: "z3-new", Seconds: r0.Seconds, Size: len(q0.Text), ob: &oo})
			return
		}
	}
	if qg != nil {
		if rg := solveT(qg, false, c.tmo(quickTimeout)); rg.Result == "unsat" {
			oo := o
			c.add(ObResult{Name: o.Name, Kind: o.Kind, Result: "discharged", Backend: rg.Backend + " (quantified hypotheses only as instances at the goal's skolem constants)", Seconds: rg.Seconds, Size: len(qg.Text), ob: &oo})
			return
		}
	}
	q := SMTQuery([]*Term{withInstHints(full, false)}, modelTerms(vars))
	if d := os.Getenv("SNESVC_DUMP"); d != "" && strings.Contains(o.Name, d) {
		os.WriteFile("/tmp/dump_"+sanitizeFile(o.Name)+".smt2", []byte(q.Text), 0o644)
	}
	r := solveT(q, c.allBackends, c.tmo(quickTimeout))
	res := ObResult{Name: o.Name, Kind: o.Kind, Backend: r.Backend, Seconds: r.Seconds, Tried: r.Tried, Size: len(q.Text)}
	oo := o
	res.ob = &oo
	switch r.Result {
	case "unsat":
		res.Result = "discharged"
	case "sat":
		res.Result = "violated"
		res.Model = buildModel(vars, r.Values)
		res.vars = vars
		res.Output = r.Output
	case "error":
		res.Result = "undecided"
		res.Output = r.Output
	default:
		if c.tmul <= 1 {
			// out of time while other obligations were being solved: decided again at the end (RunRetries)
			c.retryMu.Lock()
			c.retry = append(c.retry, o)
			c.retryMu.Unlock()
			return
		}
		// unknown / timeout: the obligation is not discharged; reported as a violation without an input
		res.Result = "violated"
		res.Output = "no model: " + strings.Join(r.Tried, " ") + "\n" + r.Output
	}
	c.add(res)
}

func hasQuant(ts ...*Term) bool {
	seen := map[int64]bool{}
	var walk func(t *Term) bool
	walk = func(t *Term) bool {
		if seen[t.id] {
			return false
		}
		seen[t.id] = true
		if t.Op == "forall" {
			return true
		}
		for _, a := range t.Args {
			if walk(a) {
				return true
			}
		}
		return false
	}
	for _, t := range ts {
		if walk(t) {
			return true
		}
	}
	return false
}

// ---- known findings ----
type KnownFinding struct {
	Property   string `json:"property"`
	Obligation string `json:"obligation"` // exact obligation name, or prefix ending in '*'
	What       string `json:"what"`
	Witness    string `json:"witness,omitempty"`
	Fixed      bool   `json:"fixed,omitempty"`
	Commit     string `json:"commit,omitempty"`
}

func loadKnown() []KnownFinding {
	data, err := os.ReadFile("/verif/known_findings.json")
	if err != nil {
		return nil
	}
	var k []KnownFinding
	if err := json.Unmarshal(data, &k); err != nil {
		fmt.Fprintln(os.Stderr, "known_findings.json:", err)
		os.Exit(3)
	}
	return k
}

// ---- finishing: evidence + exit status ----
type replayFile struct {
	Property   string            `json:"property"`
	Obligation string            `json:"obligation"`
	Kind       string            `json:"kind"`
	Inputs     map[string]uint64 `json:"inputs,omitempty"`
	Confirmed  bool              `json:"confirmed"`
	Replay     interface{}       `json:"replay,omitempty"`
	Solver     map[string]interface{} `json:"solver"`
}

func (c *Checker) Finish(w *World, replayer func(r *ObResult) (bool, interface{})) int {
	known := loadKnown()
	batchRep := c.batchReplay(w, known)
	sort.Slice(c.Results, func(i, j int) bool { return c.Results[i].Name < c.Results[j].Name })
	nOb, nDis, nTriv := 0, 0, 0
	back := map[string]int{}
	var samples []interface{}
	exit := 0
	for i := range c.Results {
		r := &c.Results[i]
		nOb++
		if os.Getenv("SNESVC_LIST") != "" {
			fmt.Fprintf(os.Stderr, "OB %-70s %-10s %6.2fs %s\n", r.Name, r.Result, r.Seconds, r.Backend)
		}
		switch r.Result {
		case "trivial":
			nTriv++
			nDis++
		case "discharged":
			nDis++
			back[strings.TrimSuffix(r.Backend, "(batch)")]++
			if len(samples) < 12 && i%maxInt(1, len(c.Results)/12) == 0 {
				samples = append(samples, map[string]interface{}{"obligation": r.Name, "kind": r.Kind, "backend": r.Backend, "seconds": round3(r.Seconds), "smt_bytes": r.Size})
			}
		case "undecided":
			c.Undecided = append(c.Undecided, r.Name+": "+firstLine(r.Output))
		case "violated":
			// a recorded known finding?
			isKnown := false
			for _, k := range known {
				if k.Property != c.Prop || k.Fixed {
					continue
				}
				if k.Obligation == r.Name || (strings.HasSuffix(k.Obligation, "*") && strings.HasPrefix(r.Name, strings.TrimSuffix(k.Obligation, "*"))) {
					isKnown = true
					line := fmt.Sprintf("KNOWN-FINDING: property=%s %s: %s", c.Prop, r.Name, k.What)
					c.Known = append(c.Known, line)
					r.Result = "known"
				}
			}
			if isKnown {
				continue
			}
			confirmed := false
			var rep interface{}
			if br, ok := batchRep[r.Name]; ok {
				confirmed, rep = br.ok, br.rep
			} else if replayer != nil && r.Model != nil {
				confirmed, rep = replayer(r)
			}
			dir := "/verif/replays/" + c.Prop
			os.MkdirAll(dir, 0o755)
			path := filepath.Join(dir, sanitizeFile(r.Name)+".json")
			rf := replayFile{Property: c.Prop, Obligation: r.Name, Kind: r.Kind, Inputs: r.Model, Confirmed: confirmed, Replay: rep,
				Solver: map[string]interface{}{"backend": r.Backend, "tried": r.Tried, "seconds": r.Seconds, "output": r.Output}}
			data, _ := json.MarshalIndent(rf, "", " ")
			os.WriteFile(path, data, 0o644)
			line := fmt.Sprintf("VIOLATION property=%s replay=%s obligation=%s", c.Prop, path, r.Name)
			if !confirmed {
				line += " no-failing-input-found"
			}
			c.Violations = append(c.Violations, line)
		}
	}
	// known findings must still be reproducible: a listed finding whose obligation now discharges is reported
	for _, k := range known {
		if k.Property != c.Prop || k.Fixed {
			continue
		}
		seen := false
		for _, l := range c.Known {
			if strings.Contains(l, strings.TrimSuffix(k.Obligation, "*")) {
				seen = true
			}
		}
		if !seen {
			c.Notes = append(c.Notes, "known finding no longer reproduces: "+k.Obligation)
		}
	}
	sort.Strings(c.Known)
	seenK := map[string]bool{}
	for _, l := range c.Known {
		if !seenK[l] {
			seenK[l] = true
			fmt.Println(l)
		}
	}
	for _, l := range c.Violations {
		fmt.Println(l)
		exit = 1
	}
	for _, l := range c.Undecided {
		fmt.Println("UNDECIDED property=" + c.Prop + " " + l)
		if exit == 0 {
			exit = 2
		}
	}
	if nOb == 0 {
		fmt.Printf("UNDECIDED property=%s no obligations were generated\n", c.Prop)
		exit = 2
	}
	// evidence
	solverStats.Lock()
	solvers := map[string]interface{}{}
	for b, n := range solverStats.calls {
		solvers[b] = map[string]interface{}{"calls": n, "seconds": round3(solverStats.seconds[b]), "decided": solverStats.decided[b]}
	}
	solverStats.Unlock()
	var fns []string
	for f, how := range c.Functions {
		fns = append(fns, f+": "+how)
	}
	sort.Strings(fns)
	var trusted []string
	for t, n := range c.Trusted {
		trusted = append(trusted, fmt.Sprintf("%s (%d uses)", t, n))
	}
	sort.Strings(trusted)
	nKnown := 0
	for _, r := range c.Results {
		if r.Result == "known" {
			nKnown++
		}
	}
	cov := map[string]interface{}{
		"obligations":       nOb - nKnown,
		"obligations_incl_known_findings": nOb,
		"discharged":        nDis,
		"trivially_true":    nTriv,
		"known_findings":    nKnown,
		"undischarged":      nOb - nDis - nKnown,
		"by_backend":        back,
		"solvers":           solvers,
		"checker_cmd":       "cd /verif && ./check " + c.Prop + " " + c.Tier,
		"trusted_base":      append([]string{"go/types + go/ssa lowering (x/tools v0.29.0)", "snesvc instruction semantics (64-bit machine integers, heap model)", "SMT solvers z3 5.1.0 / cvc5 1.0.3 / z3 4.8.12", "amd64 word size; Go runtime"}, trusted...),
		"functions":         fns,
		"samples":           samples,
		"notes":             c.Notes,
		"known_finding_lines": c.Known,
	}
	for k, v := range c.Extra {
		cov[k] = v
	}
	ev := map[string]interface{}{
		"property_id": c.Prop, "tier": c.Tier, "seed": c.Seed, "level": "proof", "coverage": cov,
		"assumptions": c.Assump, "wall_s": round3(time.Since(c.Start).Seconds()), "violations": len(c.Violations),
	}
	os.MkdirAll("/verif/evidence", 0o755)
	data, _ := json.MarshalIndent(ev, "", " ")
	os.WriteFile("/verif/evidence/"+c.Prop+".json", data, 0o644)
	fmt.Printf("%s %s: %d obligations, %d discharged (%d trivially), %d known findings, %d violations, %d undecided, %.1fs\n",
		c.Prop, c.Tier, nOb, nDis, nTriv, nKnown, len(c.Violations), len(c.Undecided), time.Since(c.Start).Seconds())
	return exit
}

func maxInt(a, b int) int {
	if a > b {
		return a
	}
	return b
}
func round3(f float64) float64 { return float64(int(f*1000+0.5)) / 1000 }
func firstLine(s string) string {
	if i := strings.IndexByte(s, '\n'); i >= 0 {
		return s[:i]
	}
	return s
}
func sanitizeFile(s string) string {
	r := strings.NewReplacer("/", "_", " ", "_", "(", "", ")", "", "*", "p", ":", "_", "#", "-", "@", "_at_", ",", "_", "=", "_", "$", "_", "<", "_", ">", "_", "[", "_", "]", "_", "'", "", "\"", "")
	s = r.Replace(s)
	if len(s) > 150 {
		s = s[:150]
	}
	return s
}

type repResult struct {
	ok  bool
	rep interface{}
}

func (c *Checker) isKnown(known []KnownFinding, name string) bool {
	for _, k := range known {
		if k.Property != c.Prop || k.Fixed {
			continue
		}
		if k.Obligation == name || (strings.HasSuffix(k.Obligation, "*") && strings.HasPrefix(name, strings.TrimSuffix(k.Obligation, "*"))) {
			return true
		}
	}
	return false
}

// batchReplay replays all CPU counterexamples of a run with one `go test` per package
func (c *Checker) batchReplay(w *World, known []KnownFinding) map[string]repResult {
	out := map[string]repResult{}
	var todo []*ObResult
	for i := range c.Results {
		r := &c.Results[i]
		if r.Result == "violated" && r.Model != nil && strings.Contains(r.Name, "@op=") && !c.isKnown(known, r.Name) {
			todo = append(todo, r)
		}
	}
	if len(todo) > 0 {
		replayCPU(w, todo, out)
	}
	var etodo []*ObResult
	for i := range c.Results {
		r := &c.Results[i]
		if r.Result == "violated" && r.Model != nil && !strings.Contains(r.Name, "@op=") && !c.isKnown(known, r.Name) {
			etodo = append(etodo, r)
		}
	}
	if len(etodo) > 0 {
		func() {
			defer func() {
				if rr := recover(); rr != nil {
					c.Notes = append(c.Notes, fmt.Sprintf("emitter replay failed: %v", rr))
				}
			}()
			replayEmitter(w, etodo, out)
		}()
	}
	return out
}

// splitOb decides an obligation whole with a short timeout, else per value of its split expression
func (c *Checker) splitOb(o Oblig) {
	q := SMTQuery([]*Term{o.PC, Not(o.Cond)}, nil)
	save := quickTimeout
	r := solveWithTimeout(q, 4*time.Second)
	_ = save
	if r.Result == "unsat" {
		c.add(ObResult{Name: o.Name, Kind: o.Kind, Result: "discharged", Backend: r.Backend, Seconds: r.Seconds, Tried: r.Tried, Size: len(q.Text)})
		return
	}
	var wg sync.WaitGroup
	for cv := o.SplitLo; cv <= o.SplitHi; cv++ {
		cv := cv
		wg.Add(1)
		go func() {
			defer wg.Done()
			so := Oblig{Name: fmt.Sprintf("%s@split=%02X", o.Name, cv), Cond: o.Cond, PC: And(o.PC, Eq(o.SplitT, Const(o.SplitT.S.W, uint64(cv)))), Kind: o.Kind, Fn: o.Fn}
			// one back end first (racing three parsers over a multi-megabyte query wastes the cores)
			q := SMTQuery([]*Term{so.PC, Not(so.Cond)}, nil)
			r := runSolver("z3-new", q, quickTimeout)
			if r.Result == "unsat" {
				c.add(ObResult{Name: so.Name, Kind: so.Kind, Result: "discharged", Backend: "z3-new", Seconds: r.Seconds, Size: len(q.Text)})
				return
			}
			c.single(so)
		}()
	}
	wg.Wait()
}
