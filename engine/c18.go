package main

// C18: the library keeps no mutable state outside the objects the caller owns.
// A frame condition on EVERY function of every repository package, decided by a provenance analysis
// over SSA (no solver): no Store / MapUpdate / append-in-place / copy target is rooted in a package-level
// variable or in memory loaded from one; no reference to package-level memory escapes into instance
// state or is handed to a callee that may write through it. `init` is excluded (runs once, before any
// goroutine can use the package).

import (
	"fmt"
	"go/types"
	"os"
	"sort"
	"strings"

	"golang.org/x/tools/go/ssa"
	"golang.org/x/tools/go/ssa/ssautil"
)

func init() { drivers["C18"] = driveC18 }

func pointerLike(t types.Type) bool {
	switch u := t.Underlying().(type) {
	case *types.Pointer, *types.Slice, *types.Map, *types.Signature, *types.Interface, *types.Chan:
		return true
	case *types.Struct:
		for i := 0; i < u.NumFields(); i++ {
			if pointerLike(u.Field(i).Type()) {
				return true
			}
		}
	case *types.Array:
		return pointerLike(u.Elem())
	case *types.Tuple:
		for i := 0; i < u.Len(); i++ {
			if pointerLike(u.At(i).Type()) {
				return true
			}
		}
	}
	return false
}

func zeroSized(t types.Type) bool {
	switch u := t.Underlying().(type) {
	case *types.Struct:
		for i := 0; i < u.NumFields(); i++ {
			if !zeroSized(u.Field(i).Type()) {
				return false
			}
		}
		return true
	case *types.Array:
		return u.Len() == 0 || zeroSized(u.Elem())
	case *types.Pointer:
		return false
	}
	return false
}

// immutableRef: references whose target cannot be mutated through them (error values, pointers to zero-size structs, funcs)
func immutableRef(t types.Type) bool {
	if t.String() == "error" {
		return true
	}
	switch u := t.Underlying().(type) {
	case *types.Pointer:
		return zeroSized(u.Elem())
	case *types.Signature:
		return true
	}
	return false
}

type c18Sum struct {
	writes  []bool // function may write through parameter i (incl. receiver and free variables after params)
	escapes []bool // function may store parameter i (a reference) into memory that outlives the call
}

func driveC18(w *World, c *Checker) {
	repoFn := func(fn *ssa.Function) bool {
		for fn.Parent() != nil {
			fn = fn.Parent()
		}
		return fn.Pkg != nil && strings.HasPrefix(fn.Pkg.Pkg.Path(), repoPath)
	}
	var fns []*ssa.Function
	for fn := range ssautil.AllFunctions(w.prog) {
		if repoFn(fn) && len(fn.Blocks) > 0 && fn.Synthetic == "" {
			fns = append(fns, fn)
		}
	}
	sort.Slice(fns, func(i, j int) bool { return fns[i].String() < fns[j].String() })
	// derived(v): the set of roots (param index >= 0, or -1-k for globals) a value is derived from
	type rootset map[string]bool
	paramRoots := func(fn *ssa.Function) map[ssa.Value]string {
		m := map[ssa.Value]string{}
		for i, p := range fn.Params {
			m[p] = fmt.Sprintf("p%d", i)
		}
		for i, fv := range fn.FreeVars {
			m[fv] = fmt.Sprintf("p%d", len(fn.Params)+i)
		}
		return m
	}
	derive := func(fn *ssa.Function) map[ssa.Value]rootset {
		d := map[ssa.Value]rootset{}
		pr := paramRoots(fn)
		get := func(v ssa.Value) rootset {
			if g, ok := v.(*ssa.Global); ok {
				return rootset{"g:" + g.Pkg.Pkg.Name() + "." + g.Name(): true}
			}
			if r, ok := pr[v]; ok {
				return rootset{r: true}
			}
			return d[v]
		}
		add := func(v ssa.Value, rs rootset, tag string) bool {
			if len(rs) == 0 {
				return false
			}
			cur := d[v]
			if cur == nil {
				cur = rootset{}
				d[v] = cur
			}
			ch := false
			for r := range rs {
				k := r
				if tag != "" && strings.HasPrefix(r, "g:") && !strings.Contains(r, "/loaded") {
					k = r + tag
				}
				if !cur[k] {
					cur[k] = true
					ch = true
				}
			}
			return ch
		}
		for changed := true; changed; {
			changed = false
			for _, b := range fn.Blocks {
				for _, ins := range b.Instrs {
					v, ok := ins.(ssa.Value)
					if !ok {
						continue
					}
					switch in := ins.(type) {
					case *ssa.FieldAddr:
						changed = add(v, get(in.X), "") || changed
					case *ssa.IndexAddr:
						changed = add(v, get(in.X), "") || changed
					case *ssa.Field:
						if pointerLike(in.Type()) {
							changed = add(v, get(in.X), "") || changed
						}
					case *ssa.Index:
						if pointerLike(in.Type()) {
							changed = add(v, get(in.X), "") || changed
						}
					case *ssa.Slice:
						changed = add(v, get(in.X), "") || changed
					case *ssa.ChangeType:
						changed = add(v, get(in.X), "") || changed
					case *ssa.Convert:
						if pointerLike(in.Type()) {
							changed = add(v, get(in.X), "") || changed
						}
					case *ssa.ChangeInterface:
						changed = add(v, get(in.X), "") || changed
					case *ssa.MakeInterface:
						if pointerLike(in.X.Type()) {
							changed = add(v, get(in.X), "") || changed
						}
					case *ssa.TypeAssert:
						changed = add(v, get(in.X), "") || changed
					case *ssa.Extract:
						changed = add(v, get(in.Tuple), "") || changed
					case *ssa.Lookup:
						if pointerLike(in.Type()) {
							changed = add(v, get(in.X), "/loaded") || changed
						}
					case *ssa.Phi:
						for _, e := range in.Edges {
							changed = add(v, get(e), "") || changed
						}
					case *ssa.MakeClosure:
						for _, bnd := range in.Bindings {
							changed = add(v, get(bnd), "") || changed
						}
					case *ssa.UnOp:
						if in.Op.String() == "*" && pointerLike(in.Type()) {
							changed = add(v, get(in.X), "/loaded") || changed
						}
					case *ssa.Call:
						// results of calls may alias pointer-like arguments (conservative)
						if pointerLike(in.Type()) {
							for _, a := range in.Call.Args {
								if pointerLike(a.Type()) {
									changed = add(v, get(a), "") || changed
								}
							}
							if in.Call.IsInvoke() {
								changed = add(v, get(in.Call.Value), "") || changed
							}
						}
					}
				}
			}
		}
		// expose get for callers
		for v := range pr {
			d[v] = get(v)
		}
		return d
	}
	derived := map[*ssa.Function]map[ssa.Value]rootset{}
	for _, fn := range fns {
		derived[fn] = derive(fn)
	}
	rootsOf := func(fn *ssa.Function, v ssa.Value) rootset {
		if g, ok := v.(*ssa.Global); ok {
			return rootset{"g:" + g.Pkg.Pkg.Name() + "." + g.Name(): true}
		}
		return derived[fn][v]
	}
	// parameter-write summaries to a fixpoint
	sums := map[*ssa.Function]*c18Sum{}
	for _, fn := range fns {
		sums[fn] = &c18Sum{writes: make([]bool, len(fn.Params)+len(fn.FreeVars)), escapes: make([]bool, len(fn.Params)+len(fn.FreeVars))}
	}
	readOnlyExtern := func(name string) bool {
		for _, p := range []string{"fmt.", "log.", "errors.", "strings.", "strconv.Format", "strconv.Itoa", "(*strings.Builder)", "bytes.NewReader", "(*bytes.Buffer).Bytes", "reflect.", "(reflect.", "(*bytes.Reader)"} {
			if strings.HasPrefix(name, p) {
				return true
			}
		}
		return false
	}
	calleeWrites := func(call *ssa.CallCommon, argIdx int) (bool, string) {
		// does the callee possibly write through argument argIdx (index into call.Args; -1 = invoke receiver)?
		if call.IsInvoke() {
			return true, "dynamic call " + call.Method.Name()
		}
		if _, ok := call.Value.(*ssa.Builtin); ok {
			b := call.Value.(*ssa.Builtin).Name()
			switch b {
			case "append", "copy":
				return argIdx == 0, "builtin " + b
			case "delete":
				return argIdx == 0, "builtin delete"
			}
			return false, ""
		}
		fn := call.StaticCallee()
		if fn == nil {
			return true, "call through a function value"
		}
		if s, ok := sums[fn]; ok {
			idx := argIdx
			if idx < len(s.writes) {
				return s.writes[idx], fn.String()
			}
			return false, ""
		}
		if readOnlyExtern(fn.String()) {
			return false, ""
		}
		return true, "external " + fn.String()
	}
	calleeEscapes := func(call *ssa.CallCommon, argIdx int) (bool, string) {
		if call.IsInvoke() {
			return true, "dynamic call " + call.Method.Name()
		}
		if b, ok := call.Value.(*ssa.Builtin); ok {
			if b.Name() == "append" {
				return argIdx > 0, "builtin append"
			}
			return false, ""
		}
		fn := call.StaticCallee()
		if fn == nil {
			return true, "call through a function value"
		}
		if s, ok := sums[fn]; ok {
			if argIdx < len(s.escapes) {
				return s.escapes[argIdx], fn.String()
			}
			return false, ""
		}
		if readOnlyExtern(fn.String()) {
			return false, ""
		}
		return true, "external " + fn.String()
	}
	markEsc := func(fn *ssa.Function, rs rootset) bool {
		ch := false
		for r := range rs {
			if strings.HasPrefix(r, "p") {
				var i int
				fmt.Sscanf(r, "p%d", &i)
				if i < len(sums[fn].escapes) && !sums[fn].escapes[i] {
					sums[fn].escapes[i] = true
					ch = true
				}
			}
		}
		return ch
	}
	markParam := func(fn *ssa.Function, rs rootset) bool {
		ch := false
		for r := range rs {
			if strings.HasPrefix(r, "p") {
				var i int
				fmt.Sscanf(r, "p%d", &i)
				if i < len(sums[fn].writes) && !sums[fn].writes[i] {
					sums[fn].writes[i] = true
					ch = true
				}
			}
		}
		return ch
	}
	for changed := true; changed; {
		changed = false
		for _, fn := range fns {
			for _, b := range fn.Blocks {
				for _, ins := range b.Instrs {
					switch in := ins.(type) {
					case *ssa.Store:
						changed = markParam(fn, rootsOf(fn, in.Addr)) || changed
						if pointerLike(in.Val.Type()) {
							// storing a parameter-derived reference: it escapes unless the target is a local that does not
							if _, isAlloc := in.Addr.(*ssa.Alloc); !isAlloc || in.Addr.(*ssa.Alloc).Heap {
								changed = markEsc(fn, rootsOf(fn, in.Val)) || changed
							}
						}
					case *ssa.MapUpdate:
						changed = markParam(fn, rootsOf(fn, in.Map)) || changed
						if pointerLike(in.Value.Type()) {
							changed = markEsc(fn, rootsOf(fn, in.Value)) || changed
						}
					case *ssa.Return:
						for _, r := range in.Results {
							if pointerLike(r.Type()) {
								changed = markEsc(fn, rootsOf(fn, r)) || changed
							}
						}
					case *ssa.Call:
						for i, a := range in.Call.Args {
							if !pointerLike(a.Type()) {
								continue
							}
							if wr, _ := calleeWrites(&in.Call, i); wr {
								changed = markParam(fn, rootsOf(fn, a)) || changed
							}
							if es, _ := calleeEscapes(&in.Call, i); es {
								changed = markEsc(fn, rootsOf(fn, a)) || changed
							}
						}
						if in.Call.IsInvoke() {
							changed = markParam(fn, rootsOf(fn, in.Call.Value)) || changed
						}
					}
				}
			}
		}
	}
	// findings
	nStore, nFn, nGlobalLoads := 0, 0, 0
	type finding struct{ fn, what string }
	var finds []finding
	globalsSeen := map[string]int{}
	hasGlobal := func(rs rootset) (string, bool) {
		for r := range rs {
			if strings.HasPrefix(r, "g:") {
				return r[2:], true
			}
		}
		return "", false
	}
	for _, fn := range fns {
		if fn.Name() == "init" || strings.HasPrefix(fn.Name(), "init#") {
			continue
		}
		nFn++
		clean := true
		report := func(what string) {
			finds = append(finds, finding{fnName(fn), what})
			clean = false
		}
		for _, b := range fn.Blocks {
			for _, ins := range b.Instrs {
				switch in := ins.(type) {
				case *ssa.UnOp:
					if in.Op.String() == "*" {
						if g, ok := hasGlobal(rootsOf(fn, in.X)); ok {
							nGlobalLoads++
							globalsSeen[g]++
						}
					}
				case *ssa.Store:
					nStore++
					if g, ok := hasGlobal(rootsOf(fn, in.Addr)); ok {
						report(fmt.Sprintf("store into package-level state %s @%s", g, w.siteOf(fn, in)))
					}
					if pointerLike(in.Val.Type()) && !immutableRef(in.Val.Type()) {
						if g, ok := hasGlobal(rootsOf(fn, in.Val)); ok {
							report(fmt.Sprintf("reference to package-level memory %s escapes into the heap @%s", g, w.siteOf(fn, in)))
						}
					}
				case *ssa.MapUpdate:
					if g, ok := hasGlobal(rootsOf(fn, in.Map)); ok {
						report(fmt.Sprintf("map update on package-level map %s", g))
					}
				case *ssa.Call:
					for i, a := range in.Call.Args {
						if !pointerLike(a.Type()) || immutableRef(a.Type()) {
							continue
						}
						if g, ok := hasGlobal(rootsOf(fn, a)); ok {
							if wr, who := calleeWrites(&in.Call, i); wr {
								report(fmt.Sprintf("package-level memory %s is handed to %s, which may write through it @%s", g, who, w.siteOf(fn, in)))
							}
							if es, who := calleeEscapes(&in.Call, i); es {
								report(fmt.Sprintf("a reference to package-level memory %s is handed to %s, which may keep it in instance state @%s", g, who, w.siteOf(fn, in)))
							}
						}
					}
				case *ssa.Go:
					report("starts a goroutine")
				}
			}
		}
		res := ObResult{Name: fnName(fn) + "#frame.no-package-state", Kind: "frame", Result: "discharged", Backend: "ssa-provenance"}
		if !clean {
			res.Result = "violated"
			var ws []string
			for _, f := range finds {
				if f.fn == fnName(fn) {
					ws = append(ws, f.what)
				}
			}
			res.Output = strings.Join(ws, "; ")
		}
		c.add(res)
	}
	var gl []string
	for g, n := range globalsSeen {
		gl = append(gl, fmt.Sprintf("%s (%d loads)", g, n))
	}
	sort.Strings(gl)
	c.Extra["functions_scanned"] = nFn
	c.Extra["store_sites"] = nStore
	c.Extra["loads_from_package_level_state"] = gl
	c.Extra["explanation"] = "frame condition only: every function of every repository package is scanned; schedules are not explored (a race-detector run would be a different technique)"
	c.Assump = append(c.Assump, "non-interference of instances with disjoint footprints under every interleaving is the standard disjoint-access argument (meta-theory)",
		"fmt / log / strings / bytes / reflect are goroutine-safe and do not write through their arguments, as documented",
		"package init functions run before any other use of the package")
	c.Functions["<every function of github.com/alttpo/snes/...>"] = fmt.Sprintf("%d functions under the frame condition", nFn)
}

// ---- C14 driver: nothing in the repository READS the bus debug fields the disassembler writes ----
func init() { drivers["C14"] = driveC14 }

func driveC14(w *World, c *Checker) {
	if os.Getenv("SNESVC_ONLY") == "" && os.Getenv("SNESVC_OPS") == "" {
		boundedC14(w, c)
	}
	n := 0
	var bad []string
	for fn := range ssautil.AllFunctions(w.prog) {
		if fn.Pkg == nil || !strings.HasPrefix(fn.Pkg.Pkg.Path(), repoPath) {
			continue
		}
		for _, b := range fn.Blocks {
			for _, ins := range b.Instrs {
				fa, ok := ins.(*ssa.FieldAddr)
				if !ok {
					continue
				}
				pt, ok := fa.X.Type().Underlying().(*types.Pointer)
				if !ok {
					continue
				}
				named, ok := pt.Elem().(*types.Named)
				if !ok || named.Obj().Pkg() == nil {
					continue
				}
				path := named.Obj().Pkg().Path()
				isBus := named.Obj().Name() == "Bus" && (path == pkgBus || path == pkgAlt)
				if !isBus {
					continue
				}
				fname := named.Underlying().(*types.Struct).Field(fa.Field).Name()
				if fname != "EA" && fname != "Write" && fname != "M" {
					continue
				}
				n++
				for _, ref := range *fa.Referrers() {
					if u, isU := ref.(*ssa.UnOp); isU && u.Op.String() == "*" {
						// cpualt.Bus.Init's default reader returns b.M (open-bus value) — not reachable with the whole bus mapped
						if path == pkgAlt && fname == "M" && strings.Contains(fn.String(), "Init$") {
							continue
						}
						if path == pkgAlt && fname == "M" && (fn.Name() == "EaRead" || fn.Name() == "nRead") {
							continue // returns the value it has just stored there
						}
						// a read that merely returns what the same block stored to the same field just before
						// (no call in between) does not observe an earlier trace
						ownStore := false
						blk := u.Block()
						for k := len(blk.Instrs) - 1; k >= 0; k-- {
							if blk.Instrs[k] != ssa.Instruction(u) {
								continue
							}
							for j := k - 1; j >= 0; j-- {
								if _, isCall := blk.Instrs[j].(*ssa.Call); isCall {
									break
								}
								if stv, isSt := blk.Instrs[j].(*ssa.Store); isSt {
									if sfa, isFA := stv.Addr.(*ssa.FieldAddr); isFA && sfa.X == fa.X && sfa.Field == fa.Field {
										ownStore = true
										break
									}
								}
							}
						}
						if ownStore {
							continue
						}
						bad = append(bad, fmt.Sprintf("%s reads %s.%s", fnName(fn), named.Obj().Name(), fname))
					}
				}
			}
		}
	}
	r := ObResult{Name: "emulator#bus-debug-fields-are-write-only", Kind: "frame", Result: "discharged", Backend: "ssa scan"}
	if len(bad) > 0 {
		r.Result = "violated"
		r.Output = strings.Join(bad, "; ")
	}
	c.add(r)
	c.Extra["bus_debug_field_sites"] = n
	c.Assump = append(c.Assump, "cpualt's trace text is rendered by fmt (not modelled): only its frame is proved",
		"Logger.Write is an unknown callee that cannot reach the System (it receives only the output slice)")
}
