package main

// Trusted, type-indexed model of snes.readBinaryStruct / snes.writeBinaryStruct (C09).
// Those functions walk a struct by reflection and hand every exported field to encoding/binary — outside
// the reach of a VC generator. Their documented behaviour is assumed instead: the exported fields, in
// declaration order and recursively, are read / written as fixed-size little-endian values. The layout is
// computed from go/types on every run (so a reordered or resized field changes the model, exactly as it
// changes the real code); the ground layout obligations (total size, rom:"FFxx" tags) are checked by the
// C09 driver. bytes.Reader / bytes.Buffer are modelled as holders of a byte slice.

import (
	"encoding/json"
	"fmt"
	"go/types"
	"os"
	"reflect"
	"strconv"
	"strings"
)

type leafField struct {
	Path   []int // field index path inside the struct (array element index last when Elem >= 0)
	Elem   int   // >= 0: element of an array field
	Off    int   // byte offset
	Size   int   // bytes
	Name   string
	Tag    string
	Signed bool
}

// layoutOf lists the leaves of the exported fields of t in serialisation order
func layoutOf(t types.Type) ([]leafField, int) {
	var out []leafField
	off := 0
	var walk func(t types.Type, path []int, name string, tag string)
	walk = func(t types.Type, path []int, name string, tag string) {
		switch u := t.Underlying().(type) {
		case *types.Basic:
			w, sg, ok := bitsOf(t)
			if !ok || w%8 != 0 || isBool(t) {
				fail("header layout: field %s has no fixed-size encoding", name)
			}
			out = append(out, leafField{Path: append([]int(nil), path...), Elem: -1, Off: off, Size: w / 8, Name: name, Tag: tag, Signed: sg})
			off += w / 8
		case *types.Array:
			w, _, ok := bitsOf(u.Elem())
			if !ok || w != 8 {
				fail("header layout: array field %s of non-byte elements", name)
			}
			for i := 0; i < int(u.Len()); i++ {
				t := ""
				if i == 0 {
					t = tag
				}
				out = append(out, leafField{Path: append([]int(nil), path...), Elem: i, Off: off, Size: 1, Name: fmt.Sprintf("%s[%d]", name, i), Tag: t})
				off++
			}
		case *types.Struct:
			for i := 0; i < u.NumFields(); i++ {
				f := u.Field(i)
				if !f.Exported() {
					continue
				}
				ft := reflect.StructTag(u.Tag(i)).Get("rom")
				walk(f.Type(), append(append([]int(nil), path...), i), name+"."+f.Name(), ft)
			}
		default:
			fail("header layout: field %s of type %s", name, t)
		}
	}
	walk(t, nil, "", "")
	return out, off
}

func structOfIface(x *Exec, st *State, v Value) (Ptr, types.Type) {
	iv, ok := v.(IfaceV)
	if !ok {
		fail("binary struct model: argument is not a concrete interface value")
	}
	p, ok := iv.V.(Ptr)
	if !ok || p.Obj == nil {
		fail("binary struct model: argument is not a pointer to a struct")
	}
	return p, iv.Dyn.Underlying().(*types.Pointer).Elem()
}

// modelReadBinaryStruct: fills the struct from the reader's bytes (requires the reader to hold exactly the
// serialised size; other lengths are outside the model)
func (x *Exec) modelReadBinaryStruct(st *State, args []Value) Value {
	rp := args[0].(Ptr)
	if rp.Obj == nil || rp.Obj.Name != "bytes.Reader" {
		fail("readBinaryStruct model: reader is not a modelled bytes.Reader")
	}
	sl := x.load(st, rp).(StructV).F[0].(SliceV)
	p, t := structOfIface(x, st, args[1])
	lay, total := layoutOf(t)
	if !(sl.Len.IsConst() && int(sl.Len.Val) == total) && !x.implied(st, Eq(sl.Len, Const(64, uint64(total)))) {
		fail("readBinaryStruct model: the reader is not known to hold exactly the serialised size %d", total)
	}
	arrV := x.getPath(x.heapGet(st, sl.Obj), sl.Base)
	at := func(k int) *Term {
		return x.getPath(arrV, []PathElem{{Field: -1, Idx: bin("bvadd", sl.Off, Const(64, uint64(k)))}}).(Scalar).T
	}
	cur := x.load(st, p)
	for _, lf := range lay {
		var val *Term = ZExt(at(lf.Off), lf.Size*8)
		for b := 1; b < lf.Size; b++ {
			val = bin("bvor", val, bin("bvshl", ZExt(at(lf.Off+b), lf.Size*8), Const(lf.Size*8, uint64(8*b))))
		}
		var path []PathElem
		for _, f := range lf.Path {
			path = append(path, PathElem{Field: f})
		}
		if lf.Elem >= 0 {
			path = append(path, PathElem{Field: -1, Idx: Const(64, uint64(lf.Elem))})
		}
		cur = x.setPath(cur, path, Scalar{val})
	}
	x.store(st, p, cur)
	// the reader is consumed
	x.storeRaw(st, rp, StructV{F: []Value{SliceV{Obj: sl.Obj, Base: sl.Base, Off: bin("bvadd", sl.Off, sl.Len), Len: Const(64, 0), Cap: bin("bvsub", sl.Cap, sl.Len)}}})
	return IfaceV{}
}

// modelWriteBinaryStruct: appends the serialisation to a bytes.Buffer
func (x *Exec) modelWriteBinaryStruct(st *State, args []Value) Value {
	var bp Ptr
	switch w := args[0].(type) {
	case IfaceV:
		pp, ok := w.V.(Ptr)
		if !ok {
			fail("writeBinaryStruct model: writer is not a *bytes.Buffer")
		}
		bp = pp
	case Ptr:
		bp = w
	default:
		fail("writeBinaryStruct model: writer %T", args[0])
	}
	p, t := structOfIface(x, st, args[1])
	lay, total := layoutOf(t)
	bufV := x.load(st, bp).(StructV)
	old := bufV.F[0].(SliceV)
	cur := x.load(st, p)
	arr := ConstArr(ArrS(BV(64), BV(8)), Const(8, 0))
	for _, lf := range lay {
		var path []PathElem
		for _, f := range lf.Path {
			path = append(path, PathElem{Field: f})
		}
		if lf.Elem >= 0 {
			path = append(path, PathElem{Field: -1, Idx: Const(64, uint64(lf.Elem))})
		}
		v := x.getPath(cur, path).(Scalar).T
		for b := 0; b < lf.Size; b++ {
			arr = Store(arr, Const(64, uint64(lf.Off+b)), Extract(8*b+7, 8*b, v))
		}
	}
	o := x.newObj(types.NewArray(types.Typ[types.Uint8], 1<<40), "bytes.Buffer#backing")
	nb := StructV{F: append([]Value(nil), bufV.F...)}
	if old.Len.IsConst() && old.Len.Val == 0 {
		st.Heap[o.ID] = ArrayT{T: arr, Len: 1 << 40, Elem: types.Typ[types.Uint8]}
		nb.F[0] = SliceV{Obj: o, Off: Const(64, 0), Len: Const(64, uint64(total)), Cap: Const(64, uint64(total))}
	} else {
		// the buffer already holds bytes: the serialisation is appended after them
		if old.Obj == nil {
			fail("writeBinaryStruct model: non-empty buffer without backing")
		}
		oa, ok := x.getPath(x.heapGet(st, old.Obj), old.Base).(ArrayT)
		if !ok {
			fail("writeBinaryStruct model: buffer backing %T", x.getPath(x.heapGet(st, old.Obj), old.Base))
		}
		j := Bound(fmt.Sprintf("j_b%d", x.nextFresh()), BV(64))
		content := Lambda(j, Ite(cmp("bvult", j, old.Len), Select(oa.T, bin("bvadd", old.Off, j)), Select(arr, bin("bvsub", j, old.Len))))
		st.Heap[o.ID] = ArrayT{T: content, Len: 1 << 40, Elem: types.Typ[types.Uint8]}
		n := bin("bvadd", old.Len, Const(64, uint64(total)))
		nb.F[0] = SliceV{Obj: o, Off: Const(64, 0), Len: n, Cap: n}
	}
	x.store(st, bp, nb)
	return IfaceV{}
}

// ---- C09 driver: ground layout obligations ----
func init() { drivers["C09"] = driveC09 }

func driveC09(w *World, c *Checker) {
	ht := w.typ(repoPath, "Header")
	lay, total := layoutOf(ht)
	add := func(name string, ok bool, detail string) {
		r := ObResult{Name: name, Kind: "layout", Result: "discharged", Backend: "ground (go/types)"}
		if !ok {
			r.Result = "violated"
			r.Output = detail
		}
		c.add(r)
	}
	add("snes.Header#layout.size==80", total == 80, fmt.Sprintf("serialised size is %d", total))
	covered := make([]int, total)
	for _, lf := range lay {
		for b := 0; b < lf.Size; b++ {
			covered[lf.Off+b]++
		}
		if lf.Tag != "" {
			v, err := strconv.ParseUint(lf.Tag, 16, 32)
			add(fmt.Sprintf("snes.Header#layout.tag%s==$%04X", lf.Name, 0xFFB0+lf.Off), err == nil && int(v) == 0xFFB0+lf.Off,
				fmt.Sprintf("field %s is documented at $%s but is read from $%04X", lf.Name, lf.Tag, 0xFFB0+lf.Off))
		}
	}
	ok := true
	for _, n := range covered {
		if n != 1 {
			ok = false
		}
	}
	add("snes.Header#layout.every-byte-in-exactly-one-field", ok, "bytes not covered exactly once")
	c.Extra["header_layout"] = func() []string {
		var s []string
		for _, lf := range lay {
			if lf.Elem <= 0 {
				s = append(s, fmt.Sprintf("$%04X %s (%d)", 0xFFB0+lf.Off, lf.Name, lf.Size))
			}
		}
		return s
	}()
	c.Assump = append(c.Assump, "reflection contract (assumed): readBinaryStruct / writeBinaryStruct read / write the exported fields in declaration order, recursively, as fixed-size little-endian values; the layout is recomputed from go/types on every run",
		"bytes.Reader / bytes.Buffer hold exactly the bytes they were given (documented behaviour of package bytes)")
	c.Functions["snes.readBinaryStruct"] = "trusted type-indexed model (reflection); agreement with the real function checked BOUNDED (see bounded_checks)"
	c.Functions["snes.writeBinaryStruct"] = "trusted type-indexed model (reflection); agreement with the real function checked BOUNDED (see bounded_checks)"
	boundedHeaderModelCheck(w, c, lay, total)
}

// boundedHeaderModelCheck: the two reflection helpers cannot be brought within reach of the VC generator; their
// type-indexed model is an assumption of the C09 proofs. As a stand-in, the REAL functions are run natively (test
// injected into the root package with go test -overlay) on a fixed set of 80-byte images — all zero, all $FF, each
// single byte set to $FF and to $01, 512 pseudo-random images — and every leaf field is compared with the
// little-endian bytes at the model's offset; writing the parsed header back must reproduce the image. BOUNDED: it
// samples 675 of 2^640 images; it is reported separately and never counted as a discharged obligation.
func boundedHeaderModelCheck(w *World, c *Checker, lay []leafField, total int) {
	var b strings.Builder
	b.WriteString("package snes\n\nimport (\n\t\"bytes\"\n\t\"encoding/binary\"\n\t\"fmt\"\n\t\"math/rand\"\n\t\"testing\"\n)\n\nvar _ = binary.LittleEndian\n\n")
	b.WriteString("func snesvcHdrCheck(img []byte) string {\n\tvar h Header\n\tif err := readBinaryStruct(bytes.NewReader(img), &h); err != nil {\n\t\treturn \"read error: \" + err.Error()\n\t}\n")
	for _, lf := range lay {
		var want string
		switch lf.Size {
		case 1:
			want = fmt.Sprintf("uint64(img[%d])", lf.Off)
		case 2:
			want = fmt.Sprintf("uint64(binary.LittleEndian.Uint16(img[%d:]))", lf.Off)
		case 4:
			want = fmt.Sprintf("uint64(binary.LittleEndian.Uint32(img[%d:]))", lf.Off)
		case 8:
			want = fmt.Sprintf("binary.LittleEndian.Uint64(img[%d:])", lf.Off)
		default:
			continue
		}
		fmt.Fprintf(&b, "\tif uint64(h%s) != %s {\n\t\treturn fmt.Sprintf(\"field %s: got %%#x, the %d byte(s) at offset %d say %%#x\", uint64(h%s), %s)\n\t}\n", lf.Name, want, lf.Name, lf.Size, lf.Off, lf.Name, want)
	}
	fmt.Fprintf(&b, "\tvar buf bytes.Buffer\n\tif err := writeBinaryStruct(&buf, &h); err != nil {\n\t\treturn \"write error: \" + err.Error()\n\t}\n\tif !bytes.Equal(buf.Bytes(), img) {\n\t\treturn fmt.Sprintf(\"written bytes differ from the image: %%x\", buf.Bytes())\n\t}\n\treturn \"\"\n}\n\n")
	fmt.Fprintf(&b, "func TestSnesvcHdrModel(t *testing.T) {\n\tn := 0\n\ttry := func(img []byte) bool {\n\t\tn++\n\t\tif msg := snesvcHdrCheck(img); msg != \"\" {\n\t\t\tfmt.Printf(\"SNESVC_HDR FAIL %%x %%s\\n\", img, msg)\n\t\t\treturn false\n\t\t}\n\t\treturn true\n\t}\n")
	fmt.Fprintf(&b, "\tz := make([]byte, %d)\n\tif !try(z) {\n\t\treturn\n\t}\n\tf := bytes.Repeat([]byte{0xff}, %d)\n\tif !try(f) {\n\t\treturn\n\t}\n", total, total)
	fmt.Fprintf(&b, "\tfor k := 0; k < %d; k++ {\n\t\tfor _, v := range []byte{0xff, 0x01} {\n\t\t\timg := make([]byte, %d)\n\t\t\timg[k] = v\n\t\t\tif !try(img) {\n\t\t\t\treturn\n\t\t\t}\n\t\t}\n\t}\n", total, total)
	fmt.Fprintf(&b, "\tr := rand.New(rand.NewSource(20260927))\n\tfor i := 0; i < 512; i++ {\n\t\timg := make([]byte, %d)\n\t\tr.Read(img)\n\t\tif !try(img) {\n\t\t\treturn\n\t\t}\n\t}\n\tfmt.Printf(\"SNESVC_HDR OK %%d\\n\", n)\n}\n", total)
	out, _ := runOverlayTest(w, repoPath, b.String(), "^TestSnesvcHdrModel$")
	rec := map[string]interface{}{"what": "snes.readBinaryStruct / writeBinaryStruct against the type-indexed model used in the C09 proofs", "kind": "bounded",
		"bound": "675 images of 80 bytes: all zero, all $FF, every single byte set to $FF and to $01, 512 pseudo-random (fixed seed)", "how": "real functions run natively, test injected with go test -overlay"}
	switch {
	case strings.Contains(out, "SNESVC_HDR OK"):
		rec["result"] = "agrees on every image tried"
	case strings.Contains(out, "SNESVC_HDR FAIL"):
		line := out[strings.Index(out, "SNESVC_HDR FAIL"):]
		if i := strings.IndexByte(line, '\n'); i > 0 {
			line = line[:i]
		}
		rec["result"] = line
		dir := "/verif/replays/" + c.Prop
		os.MkdirAll(dir, 0o755)
		path := dir + "/snes.readBinaryStruct-bounded-model-agreement.json"
		data, _ := json.MarshalIndent(map[string]interface{}{"property": c.Prop, "obligation": "snes.readBinaryStruct/writeBinaryStruct#bounded-model-agreement", "kind": "bounded", "confirmed": true, "failing_input_and_reason": line}, "", " ")
		os.WriteFile(path, data, 0o644)
		c.Violations = append(c.Violations, fmt.Sprintf("VIOLATION property=%s replay=%s obligation=snes.readBinaryStruct/writeBinaryStruct#bounded-model-agreement", c.Prop, path))
	default:
		rec["result"] = "the native run produced no verdict"
		c.Undecided = append(c.Undecided, "bounded header-model check did not run: "+tailStr(out, 400))
	}
	c.Extra["bounded_checks"] = []interface{}{rec, boundedHeaderReparseCheck(w, c)}
}

// boundedHeaderReparseCheck: a second native stand-in that uses the PUBLIC functions only, so it still compiles when
// the reflection helpers are reshaped. ROM.ReadHeader parses into the Header the ROM already holds; lemma
// RomReadHeaderWindow proves (through the helper model) that the result equals a parse into a fresh Header. Here the
// real Header.ReadHeader is run natively: image A is parsed into h, then image B into the same h, and the result
// must equal B parsed into a zero Header — for 256 pseudo-random image pairs in each of the 9 combinations of header
// versions (1, 2, 3) of A and B. BOUNDED: 2304 pairs; reported separately, never counted as discharged.
func boundedHeaderReparseCheck(w *World, c *Checker) map[string]interface{} {
	src := `package snes

import (
	"bytes"
	"fmt"
	"math/rand"
	"testing"
)

func snesvcSetVer(img []byte, v int) {
	switch v {
	case 3:
		img[0x2a] = 0x33
	case 2:
		img[0x24] = 0
		if img[0x2a] == 0x33 {
			img[0x2a] = 0x34
		}
	default:
		if img[0x2a] == 0x33 {
			img[0x2a] = 0x34
		}
		if img[0x24] == 0 {
			img[0x24] = 0x20
		}
	}
}

func TestSnesvcHdrReparse(t *testing.T) {
	r := rand.New(rand.NewSource(20260928))
	n := 0
	for i := 0; i < 256; i++ {
		for va := 1; va <= 3; va++ {
			for vb := 1; vb <= 3; vb++ {
				a := make([]byte, 80)
				b := make([]byte, 80)
				r.Read(a)
				r.Read(b)
				snesvcSetVer(a, va)
				snesvcSetVer(b, vb)
				var h, f Header
				e1 := h.ReadHeader(bytes.NewReader(a))
				e2 := h.ReadHeader(bytes.NewReader(b))
				e3 := f.ReadHeader(bytes.NewReader(b))
				n++
				if e1 != nil || e2 != nil || e3 != nil {
					fmt.Printf("SNESVC_REPARSE FAIL first=%x second=%x errors %v %v %v\n", a, b, e1, e2, e3)
					return
				}
				if h != f || h.HeaderVersion() != vb {
					fmt.Printf("SNESVC_REPARSE FAIL first=%x second=%x reused Header %+v (version %d), fresh Header %+v (version %d), image version %d\n", a, b, h, h.HeaderVersion(), f, f.HeaderVersion(), vb)
					return
				}
			}
		}
	}
	fmt.Printf("SNESVC_REPARSE OK %d\n", n)
}
`
	out, _ := runOverlayTest(w, repoPath, src, "^TestSnesvcHdrReparse$")
	rec := map[string]interface{}{"what": "Header.ReadHeader into a Header that already holds another image's fields equals a parse into a zero Header (public functions only)", "kind": "bounded",
		"bound": "2304 pairs of pseudo-random 80-byte images (fixed seed): 256 for each combination of header versions 1/2/3 of the first and the second image", "how": "real functions run natively, test injected with go test -overlay"}
	switch {
	case strings.Contains(out, "SNESVC_REPARSE OK"):
		rec["result"] = "agrees on every pair tried"
	case strings.Contains(out, "SNESVC_REPARSE FAIL"):
		line := out[strings.Index(out, "SNESVC_REPARSE FAIL"):]
		if i := strings.IndexByte(line, '\n'); i > 0 {
			line = line[:i]
		}
		rec["result"] = line
		dir := "/verif/replays/" + c.Prop
		os.MkdirAll(dir, 0o755)
		path := dir + "/snes.Header.ReadHeader-bounded-reparse.json"
		data, _ := json.MarshalIndent(map[string]interface{}{"property": c.Prop, "obligation": "snes.Header.ReadHeader#bounded-reparse-equals-fresh-parse", "kind": "bounded", "confirmed": true, "failing_input_and_reason": line}, "", " ")
		os.WriteFile(path, data, 0o644)
		c.Violations = append(c.Violations, fmt.Sprintf("VIOLATION property=%s replay=%s obligation=snes.Header.ReadHeader#bounded-reparse-equals-fresh-parse", c.Prop, path))
	default:
		rec["result"] = "the native run produced no verdict"
		c.Undecided = append(c.Undecided, "bounded header-reparse check did not run: "+tailStr(out, 400))
	}
	return rec
}
