package main

// Trusted, type-indexed model of snes.readBinaryStruct / snes.writeBinaryStruct (C09).
// Those functions walk a struct by reflection and hand every exported field to encoding/binary — outside
// the reach of a VC generator. Their documented behaviour is assumed instead: the exported fields, in
// declaration order and recursively, are read / written as fixed-size little-endian values. The layout is
// computed from go/types on every run (so a reordered or resized field changes the model, exactly as it
// changes the real code); the ground layout obligations (total size, rom:"FFxx" tags) are checked by the
// C09 driver. bytes.Reader / bytes.Buffer are modelled as holders of a byte slice.

import (
	"fmt"
	"go/types"
	"reflect"
	"strconv"
)

type leafField struct {
	Path   []int // field index path inside the struct (array element index last when Elem >= 0)
	Elem   int   // >= 0: element of an array field
	Off    int   // byte offset
	Size   int   // bytes
	Name   string
	Tag    string
	Signed bool
}

// layoutOf lists the leaves of the exported fields of t in serialisation order
func layoutOf(t types.Type) ([]leafField, int) {
	var out []leafField
	off := 0
	var walk func(t types.Type, path []int, name string, tag string)
	walk = func(t types.Type, path []int, name string, tag string) {
		switch u := t.Underlying().(type) {
		case *types.Basic:
			w, sg, ok := bitsOf(t)
			if !ok || w%8 != 0 || isBool(t) {
				fail("header layout: field %s has no fixed-size encoding", name)
			}
			out = append(out, leafField{Path: append([]int(nil), path...), Elem: -1, Off: off, Size: w / 8, Name: name, Tag: tag, Signed: sg})
			off += w / 8
		case *types.Array:
			w, _, ok := bitsOf(u.Elem())
			if !ok || w != 8 {
				fail("header layout: array field %s of non-byte elements", name)
			}
			for i := 0; i < int(u.Len()); i++ {
				t := ""
				if i == 0 {
					t = tag
				}
				out = append(out, leafField{Path: append([]int(nil), path...), Elem: i, Off: off, Size: 1, Name: fmt.Sprintf("%s[%d]", name, i), Tag: t})
				off++
			}
		case *types.Struct:
			for i := 0; i < u.NumFields(); i++ {
				f := u.Field(i)
				if !f.Exported() {
					continue
				}
				ft := reflect.StructTag(u.Tag(i)).Get("rom")
				walk(f.Type(), append(append([]int(nil), path...), i), name+"."+f.Name(), ft)
			}
		default:
			fail("header layout: field %s of type %s", name, t)
		}
	}
	walk(t, nil, "", "")
	return out, off
}

func structOfIface(x *Exec, st *State, v Value) (Ptr, types.Type) {
	iv, ok := v.(IfaceV)
	if !ok {
		fail("binary struct model: argument is not a concrete interface value")
	}
	p, ok := iv.V.(Ptr)
	if !ok || p.Obj == nil {
		fail("binary struct model: argument is not a pointer to a struct")
	}
	return p, iv.Dyn.Underlying().(*types.Pointer).Elem()
}

// modelReadBinaryStruct: fills the struct from the reader's bytes (requires the reader to hold exactly the
// serialised size; other lengths are outside the model)
func (x *Exec) modelReadBinaryStruct(st *State, args []Value) Value {
	rp := args[0].(Ptr)
	if rp.Obj == nil || rp.Obj.Name != "bytes.Reader" {
		fail("readBinaryStruct model: reader is not a modelled bytes.Reader")
	}
	sl := x.load(st, rp).(StructV).F[0].(SliceV)
	p, t := structOfIface(x, st, args[1])
	lay, total := layoutOf(t)
	if !(sl.Len.IsConst() && int(sl.Len.Val) == total) && !x.implied(st, Eq(sl.Len, Const(64, uint64(total)))) {
		fail("readBinaryStruct model: the reader is not known to hold exactly the serialised size %d", total)
	}
	arrV := x.getPath(x.heapGet(st, sl.Obj), sl.Base)
	at := func(k int) *Term {
		return x.getPath(arrV, []PathElem{{Field: -1, Idx: bin("bvadd", sl.Off, Const(64, uint64(k)))}}).(Scalar).T
	}
	cur := x.load(st, p)
	for _, lf := range lay {
		var val *Term = ZExt(at(lf.Off), lf.Size*8)
		for b := 1; b < lf.Size; b++ {
			val = bin("bvor", val, bin("bvshl", ZExt(at(lf.Off+b), lf.Size*8), Const(lf.Size*8, uint64(8*b))))
		}
		var path []PathElem
		for _, f := range lf.Path {
			path = append(path, PathElem{Field: f})
		}
		if lf.Elem >= 0 {
			path = append(path, PathElem{Field: -1, Idx: Const(64, uint64(lf.Elem))})
		}
		cur = x.setPath(cur, path, Scalar{val})
	}
	x.store(st, p, cur)
	// the reader is consumed
	x.storeRaw(st, rp, StructV{F: []Value{SliceV{Obj: sl.Obj, Base: sl.Base, Off: bin("bvadd", sl.Off, sl.Len), Len: Const(64, 0), Cap: bin("bvsub", sl.Cap, sl.Len)}}})
	return IfaceV{}
}

// modelWriteBinaryStruct: appends the serialisation to a bytes.Buffer
func (x *Exec) modelWriteBinaryStruct(st *State, args []Value) Value {
	var bp Ptr
	switch w := args[0].(type) {
	case IfaceV:
		pp, ok := w.V.(Ptr)
		if !ok {
			fail("writeBinaryStruct model: writer is not a *bytes.Buffer")
		}
		bp = pp
	case Ptr:
		bp = w
	default:
		fail("writeBinaryStruct model: writer %T", args[0])
	}
	p, t := structOfIface(x, st, args[1])
	lay, total := layoutOf(t)
	bufV := x.load(st, bp).(StructV)
	old := bufV.F[0].(SliceV)
	cur := x.load(st, p)
	arr := ConstArr(ArrS(BV(64), BV(8)), Const(8, 0))
	for _, lf := range lay {
		var path []PathElem
		for _, f := range lf.Path {
			path = append(path, PathElem{Field: f})
		}
		if lf.Elem >= 0 {
			path = append(path, PathElem{Field: -1, Idx: Const(64, uint64(lf.Elem))})
		}
		v := x.getPath(cur, path).(Scalar).T
		for b := 0; b < lf.Size; b++ {
			arr = Store(arr, Const(64, uint64(lf.Off+b)), Extract(8*b+7, 8*b, v))
		}
	}
	o := x.newObj(types.NewArray(types.Typ[types.Uint8], 1<<40), "bytes.Buffer#backing")
	nb := StructV{F: append([]Value(nil), bufV.F...)}
	if old.Len.IsConst() && old.Len.Val == 0 {
		st.Heap[o.ID] = ArrayT{T: arr, Len: 1 << 40, Elem: types.Typ[types.Uint8]}
		nb.F[0] = SliceV{Obj: o, Off: Const(64, 0), Len: Const(64, uint64(total)), Cap: Const(64, uint64(total))}
	} else {
		// the buffer already holds bytes: the serialisation is appended after them
		if old.Obj == nil {
			fail("writeBinaryStruct model: non-empty buffer without backing")
		}
		oa, ok := x.getPath(x.heapGet(st, old.Obj), old.Base).(ArrayT)
		if !ok {
			fail("writeBinaryStruct model: buffer backing %T", x.getPath(x.heapGet(st, old.Obj), old.Base))
		}
		j := Bound(fmt.Sprintf("j_b%d", x.nextFresh()), BV(64))
		content := Lambda(j, Ite(cmp("bvult", j, old.Len), Select(oa.T, bin("bvadd", old.Off, j)), Select(arr, bin("bvsub", j, old.Len))))
		st.Heap[o.ID] = ArrayT{T: content, Len: 1 << 40, Elem: types.Typ[types.Uint8]}
		n := bin("bvadd", old.Len, Const(64, uint64(total)))
		nb.F[0] = SliceV{Obj: o, Off: Const(64, 0), Len: n, Cap: n}
	}
	x.store(st, bp, nb)
	return IfaceV{}
}

// ---- C09 driver: ground layout obligations ----
func init() { drivers["C09"] = driveC09 }

func driveC09(w *World, c *Checker) {
	ht := w.typ(repoPath, "Header")
	lay, total := layoutOf(ht)
	add := func(name string, ok bool, detail string) {
		r := ObResult{Name: name, Kind: "layout", Result: "discharged", Backend: "ground (go/types)"}
		if !ok {
			r.Result = "violated"
			r.Output = detail
		}
		c.add(r)
	}
	add("snes.Header#layout.size==80", total == 80, fmt.Sprintf("serialised size is %d", total))
	covered := make([]int, total)
	for _, lf := range lay {
		for b := 0; b < lf.Size; b++ {
			covered[lf.Off+b]++
		}
		if lf.Tag != "" {
			v, err := strconv.ParseUint(lf.Tag, 16, 32)
			add(fmt.Sprintf("snes.Header#layout.tag%s==$%04X", lf.Name, 0xFFB0+lf.Off), err == nil && int(v) == 0xFFB0+lf.Off,
				fmt.Sprintf("field %s is documented at $%s but is read from $%04X", lf.Name, lf.Tag, 0xFFB0+lf.Off))
		}
	}
	ok := true
	for _, n := range covered {
		if n != 1 {
			ok = false
		}
	}
	add("snes.Header#layout.every-byte-in-exactly-one-field", ok, "bytes not covered exactly once")
	c.Extra["header_layout"] = func() []string {
		var s []string
		for _, lf := range lay {
			if lf.Elem <= 0 {
				s = append(s, fmt.Sprintf("$%04X %s (%d)", 0xFFB0+lf.Off, lf.Name, lf.Size))
			}
		}
		return s
	}()
	c.Assump = append(c.Assump, "reflection contract (assumed): readBinaryStruct / writeBinaryStruct read / write the exported fields in declaration order, recursively, as fixed-size little-endian values; the layout is recomputed from go/types on every run",
		"bytes.Reader / bytes.Buffer hold exactly the bytes they were given (documented behaviour of package bytes)")
	c.Functions["snes.readBinaryStruct"] = "trusted type-indexed model (reflection)"
	c.Functions["snes.writeBinaryStruct"] = "trusted type-indexed model (reflection)"
}
