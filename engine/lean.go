package main

// C17, corollary "a larger ratio never darkens a channel": a lemma over the spec function of MulDiv's contract. All
// three SMT back ends time out on the two-division nonlinear goal, so this one lemma is discharged by Lean 4 +
// Mathlib (thorough tier; the proof file is spec/colorspec/scale_mono.lean). The code itself is tied to the spec
// function by the SMT-checked contract of (Color).MulDiv.

import (
	"context"
	"os/exec"
	"strings"
	"time"
)

func init() { drivers["C17"] = driveC17 }

func driveC17(w *World, c *Checker) {
	const name = "colorspec.Scale#monotone-in-ratio (lemma over the contract of (Color).MulDiv)"
	c.Assump = append(c.Assump, "spec/colorspec/scale_mono.lean transcribes colorspec.Scale (min(31, ch*m/d) in uint32, no overflow for ch<=31, m,d<=255) to natural numbers by hand")
	if c.Tier != "thorough" {
		c.Notes = append(c.Notes, "the corollary 'a larger ratio never darkens a channel' (colorspec.Scale monotone in m/d) is a Lean lemma checked in the thorough tier")
		return
	}
	ctx, cancel := context.WithTimeout(context.Background(), 15*time.Minute)
	defer cancel()
	t0 := time.Now()
	cmd := exec.CommandContext(ctx, "lean", "/verif/spec/colorspec/scale_mono.lean")
	out, err := cmd.CombinedOutput()
	txt := string(out)
	r := ObResult{Name: name, Kind: "lemma", Backend: "lean 4 + Mathlib", Seconds: time.Since(t0).Seconds()}
	switch {
	case ctx.Err() != nil:
		r.Result = "undecided"
		r.Output = "lean did not finish in 15 minutes"
	case err == nil && !strings.Contains(txt, "error") && !strings.Contains(txt, "sorry") && strings.Contains(txt, "'scale_mono' depends on axioms"):
		r.Result = "discharged"
	default:
		r.Result = "violated"
		r.Output = "lean rejected the lemma:\n" + txt
	}
	c.add(r)
}
