package main

// C14, bounded stand-in for the trace text of the ALTERNATIVE interpreter: cpualt renders its line through
// fmt.Fprintf, which the VC generator does not model (TraceAlt proves the frame only). The real
// cpualt.DisassembleCurrentPC is run natively (test injected into verif/lemmas with go test -overlay) on a flat
// 16 MiB RAM for every opcode x the four M/X width settings x four program-counter positions (mid-bank and the last
// three bytes of a bank) x four operand patterns, and the whole line is compared with the line assembled from the
// oracle: K:PC, exactly Len(op,M,X) bytes from K:PC wrapping in the bank, the ISA mnemonic, the operand notation of
// the addressing mode (w65c816.TraceOperandChar), registers by width, flag letters. BOUNDED (16384 lines); reported
// under coverage.bounded_checks and never counted as proved.

import (
	"encoding/json"
	"fmt"
	"os"
	"strings"
)

const c14BoundedTest = `package lemmas

import (
	"bytes"
	"fmt"
	"strings"
	"testing"

	"github.com/alttpo/snes/emulator/cpualt"
	"verif/spec/w65c816"
)

func snesvcAltLine(c *cpualt.CPU, ram *[1 << 24]byte, op byte, m, x byte, pc uint16, w [3]byte) string {
	const k = 0x7e
	c.RK, c.PC, c.M, c.X = k, pc, m, x
	c.RA, c.RAl, c.RAh, c.RX, c.RXl, c.RY, c.RYl, c.SP = 0x1234, 0x56, 0x78, 0x9abc, 0xde, 0xf012, 0x34, 0x01f3
	c.N, c.V, c.D, c.I, c.Z, c.C = 1, 0, 0, 1, 0, 1
	c.StepInfo.EA, c.StepInfo.Addr = 0x123456, 0x789a
	ram[uint32(k)<<16|uint32(pc)] = op
	for i := 0; i < 3; i++ {
		ram[uint32(k)<<16|uint32(pc+uint16(i)+1)] = w[i]
	}
	var buf bytes.Buffer
	c.DisassembleCurrentPC(&buf)
	got := buf.String()

	var want strings.Builder
	fmt.Fprintf(&want, "ea=%06x, addr=%04x | ", 0x123456, 0x789a)
	if m == 0 {
		want.WriteString("A=1234")
	} else {
		want.WriteString("A=--56")
	}
	if x == 0 {
		want.WriteString(" X=9abc Y=f012")
	} else {
		want.WriteString(" X=--de Y=--34")
	}
	want.WriteString(" S=01f3 n-")
	want.WriteString(map[byte]string{0: "-", 1: "m"}[m])
	want.WriteString(map[byte]string{0: "-", 1: "x"}[x])
	want.WriteString("-i-c | ")
	fmt.Fprintf(&want, "%02x:%04x│", k, pc)
	n := w65c816.Len(op, m == 0, x == 0)
	col := fmt.Sprintf("%02x", op)
	for i := 1; i < n; i++ {
		col += fmt.Sprintf(" %02x", w[i-1])
	}
	fmt.Fprintf(&want, "%-11s│%3s ", col, w65c816.TraceName(op))
	wide := (w65c816.IsImmM(op) && m == 0) || (w65c816.IsImmX(op) && x == 0)
	var o []byte
	for i := 0; i < 13; i++ {
		o = append(o, w65c816.TraceOperandChar(op, wide, i, w[0], w[1], w[2], pc))
	}
	// the alternative tracer writes the stack register as "S" where the primary one writes "Sn"
	os := strings.Replace(strings.TrimRight(string(o), " "), "Sn", "S", 1)
	fmt.Fprintf(&want, "%-13s", os)
	if got != want.String() {
		return fmt.Sprintf("got %q want %q", got, want.String())
	}
	return ""
}

func TestSnesvcAltTrace(t *testing.T) {
	ram := new([1 << 24]byte)
	c := NewFlatAlt(ram)
	n := 0
	for op := 0; op < 256; op++ {
		for mx := 0; mx < 4; mx++ {
			for _, pc := range []uint16{0x8000, 0xfffd, 0xfffe, 0xffff} {
				for _, w := range [][3]byte{{0x12, 0x34, 0x56}, {0x80, 0xff, 0x00}, {0x7f, 0x00, 0xab}, {0xfe, 0xff, 0xff}} {
					n++
					if msg := snesvcAltLine(c, ram, byte(op), byte(mx>>1), byte(mx&1), pc, w); msg != "" {
						fmt.Printf("SNESVC_TA FAIL op=%02x M=%d X=%d pc=%04x operand=% x: %s\n", op, mx>>1, mx&1, pc, w[:], msg)
						return
					}
				}
			}
		}
	}
	fmt.Printf("SNESVC_TA OK %d\n", n)
}
`

func boundedC14(w *World, c *Checker) {
	out, _ := runOverlayTest(w, "verif/lemmas", c14BoundedTest, "^TestSnesvcAltTrace$")
	rec := map[string]interface{}{"what": "whole trace line of cpualt.DisassembleCurrentPC (rendered through fmt, not modelled) versus the line assembled from the ISA oracle", "kind": "bounded",
		"bound": "256 opcodes x 4 M/X settings x PC in {$8000,$FFFD,$FFFE,$FFFF} x 4 operand patterns (16384 lines), one fixed register valuation", "how": "real function run natively on a flat 16 MiB RAM, test injected with go test -overlay"}
	switch {
	case strings.Contains(out, "SNESVC_TA OK"):
		rec["result"] = "every line equals the oracle's line"
	case strings.Contains(out, "SNESVC_TA FAIL"):
		line := out[strings.Index(out, "SNESVC_TA FAIL"):]
		if i := strings.IndexByte(line, '\n'); i > 0 {
			line = line[:i]
		}
		rec["result"] = line
		dir := "/verif/replays/" + c.Prop
		os.MkdirAll(dir, 0o755)
		path := dir + "/cpualt.DisassembleCurrentPC-bounded-trace-text.json"
		data, _ := json.MarshalIndent(map[string]interface{}{"property": c.Prop, "obligation": "cpualt.DisassembleCurrentPC#bounded-trace-text", "kind": "bounded", "confirmed": true, "failing_input_and_reason": line}, "", " ")
		os.WriteFile(path, data, 0o644)
		c.Violations = append(c.Violations, fmt.Sprintf("VIOLATION property=%s replay=%s obligation=cpualt.DisassembleCurrentPC#bounded-trace-text", c.Prop, path))
	default:
		rec["result"] = "the native run produced no verdict"
		c.Undecided = append(c.Undecided, "bounded cpualt trace-text check did not run: "+tailStr(out, 400))
	}
	c.Extra["bounded_checks"] = []interface{}{rec}
}
