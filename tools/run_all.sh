#!/bin/bash
# Runs every registered quick check on the current tree and validates MANIFEST + evidence against the schemas.
cd /verif
rc=0
for p in $(python3 -c "import json;print(' '.join(c['property_id'] for c in json.load(open('MANIFEST.json'))['checks']))"); do
  out=$(./check $p ${1:-quick} 2>&1); r=$?
  echo "$out" | tail -1
  [ $r -ne 0 ] && { rc=1; echo "$out" | grep -E "VIOLATION|UNDECIDED" | head -5; }
done
python3-vt - <<'PY'
import json,jsonschema
m=json.load(open('/verif/MANIFEST.json'))
jsonschema.validate(m,json.load(open('/root/.vp/MANIFEST.schema.json')))
es=json.load(open('/root/.vp/EVIDENCE.schema.json'))
for c in m['checks']:
    e=json.load(open(c['evidence_file'])); jsonschema.validate(e,es)
    cv=e['coverage']
    assert cv['obligations']==cv['discharged'] and e['violations']==0,(c['property_id'],cv['obligations'],cv['discharged'])
props=[json.loads(l)['id'] for l in open('/verif/properties.jsonl')]
cl={c['property_id'] for c in m['checks']}; na={n['property_id'] for n in m.get('not_applicable',[])}
assert cl|na==set(props) and not (cl&na),(cl,na)
print('manifest + evidence valid;',len(cl),'claimed,',len(na),'not applicable')
PY
exit $rc
