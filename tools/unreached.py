#!/usr/bin/env python3
# tools/unreached.py: functions of /repo that no check executes or puts under contract (DESIGN appendix H).
# Compares `bin/snesvc allfuncs` with the union of coverage.functions over evidence/*.json (C18's frame scan
# covers every function but is not counted here: it is one line in its evidence).
import json, glob, subprocess, collections, re
allf = [l.strip() for l in subprocess.run(['/verif/bin/snesvc', 'allfuncs'], capture_output=True, text=True).stdout.splitlines() if l.strip()]
reached = set()
for f in glob.glob('/verif/evidence/C*.json'):
    fs = json.load(open(f))['coverage'].get('functions')
    for it in (fs if isinstance(fs, list) else list(fs.keys()) if isinstance(fs, dict) else []):
        reached.add(it.split(': ')[0].strip())
un = [f for f in allf if f not in reached]
by = collections.defaultdict(list)
for f in un:
    m = re.match(r'\(?\*?([\w/]+)\.', f)
    by[m.group(1) if m else '?'].append(re.sub(r'^\(?\*?[\w/]+\.', '', f).replace(')', '', 1) if f.startswith('(') else f.split('.')[-1])
print(f"{len(allf)} functions with bodies in the repository packages; {len(allf)-len(un)} executed symbolically or under contract in at least one check; {len(un)} not:")
for k in sorted(by):
    print(f"* `{k}`: " + ", ".join(f"`{x}`" for x in sorted(by[k])))
