#!/usr/bin/env python3
"""Records the current receiver / parameter names of every function under contract as a `//@   params ...` clause
right after its `//@ func` line (idempotent). A parameter that is renamed later is then still found by position."""
import subprocess, collections, re, os
env = dict(os.environ, GOFLAGS='-mod=mod', GOPROXY='off', GOSUMDB='off', GOTOOLCHAIN='local')
out = subprocess.check_output(['/verif/bin/snesvc', 'paramnames'], env=env, cwd='/verif').decode()
byfile = collections.defaultdict(dict)
for l in out.splitlines():
    f, name, ps = (l.split('\t') + [''])[:3]
    if f.startswith('/repo/'):
        byfile[f][name] = ps
for f, m in byfile.items():
    L = open(f).read().split('\n')
    res = []
    i = 0
    while i < len(L):
        l = L[i]
        res.append(l)
        mm = re.match(r'//\s?@ func (.+)$', l.strip())
        if mm and mm.group(1).strip() in m:
            ps = m[mm.group(1).strip()]
            nxt = L[i+1] if i+1 < len(L) else ''
            if re.match(r'//\s?@\s+params\b', nxt.strip()):
                i += 1  # replace the old clause
            if ps:
                res.append('//@   params ' + ps)
        i += 1
    open(f, 'w').write('\n'.join(res))
    print(f, len(m))
