#!/bin/bash
# tools/canary_regress.sh: every repaired defect recorded in known_findings.json is a canary — the fix commit is
# reverse-applied to /repo's working tree, the property's check must report a violation again, the tree is restored.
cd /verif
[ -n "$(git -C /repo status --porcelain | grep -v '^??')" ] && { echo "/repo not clean"; exit 2; }
miss=0
python3 - <<'PY' > /tmp/canaries.txt
import json
seen=set()
for f in json.load(open('/verif/known_findings.json')):
    if f.get('fixed') and f.get('commit') and (f['commit'],f['property']) not in seen:
        seen.add((f['commit'],f['property'])); print(f['commit'],f['property'])
PY
while read c prop; do
  git -C /repo show $c -- . ':!*contracts_verif.go' > /tmp/canary.diff 2>/dev/null
  if ! git -C /repo apply -R --check /tmp/canary.diff 2>/dev/null; then echo "$c $prop: reverse patch does not apply (later change on the same lines)"; continue; fi
  git -C /repo apply -R /tmp/canary.diff
  out=$(./check $prop quick 2>&1); rc=$?
  git -C /repo checkout -- .
  if [ $rc -eq 1 ]; then echo "$c $prop: caught ($(echo "$out" | grep -c VIOLATION) violations)"; else echo "$c $prop: MISSED (rc=$rc) $(echo "$out" | tail -1)"; miss=1; fi
done < /tmp/canaries.txt
git -C /verif checkout -- evidence 2>/dev/null  # restore the clean-tree evidence files
rm -f /tmp/canary.diff /tmp/canaries.txt; rm -rf replays
exit $miss
