#!/bin/bash
# tools/seed_regress.sh: re-applies every stored seeded change to /repo, runs the check of the property it breaks,
# reverts, and reports whether it is (still) caught. /repo must be clean. A seed whose meta.json has "expected_by" is
# run against that property instead (S66: its own property does not distinguish the change, see its history note).
cd /verif
[ -n "$(git -C /repo status --porcelain | grep -v '^??')" ] && { echo "/repo not clean"; exit 2; }
miss=0
for d in seeded/*/; do
  id=$(basename $d)
  prop=$(python3 -c "import json;m=json.load(open('$d/meta.json'));print(m.get('expected_by') or m['breaks_property'])")
  if ! git -C /repo apply --check "$PWD/$d/patch.diff" 2>/dev/null; then echo "$id $prop: patch no longer applies"; continue; fi
  git -C /repo apply "$PWD/$d/patch.diff"
  out=$(./check $prop quick 2>&1); rc=$?
  git -C /repo checkout -- .
  n=$(echo "$out" | grep -c VIOLATION)
  if [ $rc -eq 1 ]; then echo "$id $prop: caught ($n violations)"
  elif python3 -c "import json,sys;sys.exit(0 if 'verdict' in json.load(open('$d/meta.json')) else 1)"; then echo "$id $prop: not decided, as recorded in its meta.json (rc=$rc)"
  else echo "$id $prop: MISSED (rc=$rc) $(echo "$out" | tail -1)"; miss=1; fi
done
git -C /verif checkout -- evidence 2>/dev/null  # restore the clean-tree evidence files
rm -rf replays
exit $miss
