#!/bin/bash
# tools/seed_eval.sh <seed-id> <property> <dir with patch.diff + zz_seed_demo_test.go + notes.md> [more properties...]
# Confirms a seeded change in a scratch worktree (compiles, demo passes without / fails with it, baseline tests
# unchanged), runs the property check(s) against it in /repo, reverts, and stores it under /verif/seeded/<id>/.
set -u
id="$1"; prop="$2"; src="$3"; shift 3; extra="$*"
export GOFLAGS=-mod=mod GOPROXY=off GOSUMDB=off GOTOOLCHAIN=local
W=$(mktemp -d /tmp/seedwt.XXXXXX); rmdir "$W"
git -C /repo worktree add -q "$W" HEAD || exit 1
pkgdir=$(grep -m1 '^// package-dir:' "$src/zz_seed_demo_test.go" | sed 's#// package-dir: *##')
[ -z "$pkgdir" ] && { echo "no package-dir line"; git -C /repo worktree remove --force "$W"; exit 1; }
grep -v '^// package-dir:' "$src/zz_seed_demo_test.go" > "$W/$pkgdir/zz_seed_demo_test.go"
cd "$W"
echo "== demo on unchanged tree (must pass)"; go test -count=1 -vet=off ./$pkgdir -run 'Seed|seed|Demo' 2>&1 | tail -3; r0=${PIPESTATUS[0]}
git apply "$src/patch.diff" || { echo "patch does not apply"; cd /; git -C /repo worktree remove --force "$W"; exit 1; }
echo "== build with change"; go build ./... ; rb=$?
echo "== demo with change (must fail)"; go test -count=1 -vet=off ./$pkgdir -run 'Seed|seed|Demo' 2>&1 | tail -5; r1=${PIPESTATUS[0]}
echo "== baseline suite with change"; rm -f "$W/$pkgdir/zz_seed_demo_test.go"
go test -vet=off -count=1 -json ./... 2>/dev/null | python3 -c "
import json,sys
res={}
for l in sys.stdin:
    try: e=json.loads(l)
    except: continue
    if e.get('Test') and e.get('Action') in('pass','fail'): res[e['Package']+'::'+e['Test']]=e['Action']
sp=json.load(open('/root/.vp/BASELINE.json'))['stable_pass']
bad=[t for t in sp if res.get(t)!='pass']
print('stable_pass tests no longer passing:',len(bad),bad[:5])
sys.exit(1 if bad else 0)"; rs=$?
cd /; git -C /repo worktree remove --force "$W"
echo "== checks against the change in /repo"
git -C /repo apply "$src/patch.diff" || exit 1
caught=""
for p in $prop $extra; do
  out=$(cd /verif && ./check $p quick 2>&1); rc=$?
  echo "$out" | grep -E "VIOLATION|UNDECIDED" | head -5; echo "$out" | tail -1
  [ $rc -eq 1 ] && caught="$caught $p"
done
git -C /verif checkout -- evidence 2>/dev/null  # evidence files are rewritten by every run: restore the clean-tree ones
git -C /repo checkout -- . ; git -C /repo status --short | grep -v '^??' | head
mkdir -p /verif/seeded/$id; cp "$src/patch.diff" "$src/zz_seed_demo_test.go" /verif/seeded/$id/; cp "$src/notes.md" /verif/seeded/$id/notes.md 2>/dev/null
python3 - <<PY
import json
json.dump({"id":"$id","breaks_property":"$prop","also_checked":"$extra".split(),"confirmed":{"demo_passes_without_change":$r0==0,"builds_with_change":$rb==0,"demo_fails_with_change":$r1!=0,"baseline_suite_unchanged":$rs==0},
"caught_by":"$caught".split(),"needs_to_manifest":"see notes.md","ran":"tools/seed_eval.sh $id $prop $src $extra"},open("/verif/seeded/$id/meta.json","w"),indent=1)
PY
echo "RESULT id=$id demo_ok=$([ $r0 -eq 0 ] && [ $r1 -ne 0 ] && echo yes || echo no) suite_ok=$([ $rs -eq 0 ] && echo yes || echo no) caught_by=[$caught ]"
