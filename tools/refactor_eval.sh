#!/bin/bash
# tools/refactor_eval.sh <dir with rNN.diff files>: false-alarm test. Every patch is a behaviour-preserving refactoring
# (written by an independent sub-agent); it is applied to /repo's working tree, the quick checks of every property
# that depends on the touched packages are run, the tree is restored. Any VIOLATION or UNDECIDED is reported.
cd /verif
[ -n "$(git -C /repo status --porcelain | grep -v '^??')" ] && { echo "/repo not clean"; exit 2; }
props_for() {
  local ps=""
  for f in $(grep '^+++ b/' "$1" | sed 's#+++ b/##'); do
    case "$f" in
      asm/*|xbuf/*) ps="$ps C03 C06 C07 C14 C15 C16 C19 C18" ;;
      emulator/bus/*) ps="$ps C01 C02 C08 C11 C12 C13 C14 C18" ;;
      emulator/memory/*) ps="$ps C11 C13 C18" ;;
      emulator/cpu65c816/*) ps="$ps C01 C02 C07 C08 C12 C14 C18" ;;
      emulator/cpualt/*) ps="$ps C01 C02 C08 C12 C14 C18" ;;
      emulator/*) ps="$ps C11 C12 C14 C18" ;;
      mapping/*) ps="$ps C04 C05 C11 C18" ;;
      color15/*) ps="$ps C17 C18" ;;
      *.go) ps="$ps C09 C10 C18" ;;
    esac
  done
  echo $ps | tr ' ' '\n' | sort -u | tr '\n' ' '
}
bad=0
D=$(cd "$1" && pwd)
for d in "$D"/r*.diff; do
  if ! git -C /repo apply --check "$d" 2>/dev/null; then echo "$(basename $d): does not apply"; continue; fi
  git -C /repo apply "$d"
  ps=$(props_for "$d")
  res=""
  for p in $ps; do
    out=$(./check $p quick 2>&1); rc=$?
    if [ $rc -ne 0 ]; then res="$res $p(rc=$rc: $(echo "$out" | grep -E 'VIOLATION|UNDECIDED' | head -1 | cut -c1-200))"; bad=1; fi
  done
  git -C /repo checkout -- .
  # new files created by a patch
  git -C /repo clean -fdq -- . 2>/dev/null
  echo "$(basename $d) [$ps]: ${res:-silent}"
done
git -C /verif checkout -- evidence 2>/dev/null
rm -rf replays
exit $bad
