package lemmas

import "github.com/alttpo/snes/asm"

// ---- C16: emitting one call into a Clone and appending it equals emitting it directly ----
// a and d are two emitters with equal observable state (EMEQ). One call is made in a clone of a, which is appended
// back; the same call is made on d directly. Afterwards a and d are again equal. By induction over the calls of
// the tail (each step through these lemmas, the clone's state between steps being a function of its own fields)
// this is the property's "indistinguishable from one that received the whole sequence directly" for any split.
// One lemma per kind of recording helper: emit1, emit2, emit2Label, emit3, emit3Label, emit4, data, label, comment.
// For the data block the NEW listing records are compared in number only (their fields are a function of address,
// pending base and block length by EmitBytes's contract; the three-way equality through Append needs more solver
// time than a routine check may use, and the 'db' text is not modelled at all).

//@ define EMEQ_S(a, d) (a.n == d.n && a.address == d.address && a.base == d.base && a.baseSet == d.baseSet && a.flagsTracker == d.flagsTracker && a.generateText == d.generateText)
//@ define EMEQ_CODE(a, d) all(j, int, 0 <= j && j < a.n ==> a.code[j] == d.code[j])
//@ define EMEQ_LINES(a, d) (len(a.lines) == len(d.lines) && all(k, int, 0 <= k && k < len(a.lines) ==> a.lines[k] == d.lines[k]))
//@ define EMEQ_LABELS(a, d) all(k, string, has(a.labels, k) == has(d.labels, k) && (has(a.labels, k) ==> a.labels[k] == d.labels[k]))
//@ define EMEQ_S8(a, d) (all(k, string, has(a.danglingS8, k) == has(d.danglingS8, k) && (has(a.danglingS8, k) ==> len(a.danglingS8[k]) == len(d.danglingS8[k]))) && all(k, string, all(j, int, has(a.danglingS8, k) && 0 <= j && j < len(a.danglingS8[k]) ==> a.danglingS8[k][j] == d.danglingS8[k][j])))
//@ define EMEQ_U16(a, d) (all(k, string, has(a.danglingU16, k) == has(d.danglingU16, k) && (has(a.danglingU16, k) ==> len(a.danglingU16[k]) == len(d.danglingU16[k]))) && all(k, string, all(j, int, has(a.danglingU16, k) && 0 <= j && j < len(a.danglingU16[k]) ==> a.danglingU16[k][j] == d.danglingU16[k][j])))
//@ define EMEQ_LINES3(a, d) (len(a.lines) == len(d.lines) && all(k, int, 0 <= k && k < len(a.lines) ==> LT(a, k) == LT(d, k) && a.lines[k].address == d.lines[k].address && BC(a, k) == BC(d, k)))
//@ define EMEQ(a, d) (EMEQ_S(a, d) && EMEQ_CODE(a, d) && EMEQ_LINES(a, d) && EMEQ_LABELS(a, d) && EMEQ_S8(a, d) && EMEQ_U16(a, d))
//@ define CS_ROOM(a, d, target) (a.n >= 0 && a.n <= len(a.code) && len(a.code)-a.n >= 4 && d.n <= len(d.code) && len(d.code)-d.n >= 4 && len(target) >= 4 && !isnil(a.code) && !isnil(d.code) && !isnil(target))

// @ lemma CloneStep_NOP property C16
// @   maypanic
// @   requires EMEQ(a, d) && CS_ROOM(a, d, target)
// @   ensures EMEQ_S(a, d)
// @   ensures EMEQ_CODE(a, d)
// @   ensures EMEQ_LINES(a, d)
// @   ensures EMEQ_LABELS(a, d)
// @   ensures EMEQ_S8(a, d)
// @   ensures EMEQ_U16(a, d)
func CloneStep_NOP(a, d *asm.Emitter, target []byte) {
	c := a.Clone(target)
	c.NOP()
	a.Append(c)
	d.NOP()
}

// @ lemma CloneStep_REP property C16
// @   maypanic
// @   requires EMEQ(a, d) && CS_ROOM(a, d, target)
// @   ensures EMEQ_S(a, d)
// @   ensures EMEQ_CODE(a, d)
// @   ensures EMEQ_LINES(a, d)
// @   ensures EMEQ_LABELS(a, d)
// @   ensures EMEQ_S8(a, d)
// @   ensures EMEQ_U16(a, d)
func CloneStep_REP(a, d *asm.Emitter, target []byte, c asm.Flags) {
	cl := a.Clone(target)
	cl.REP(c)
	a.Append(cl)
	d.REP(c)
}

// @ lemma CloneStep_LDA_imm8_b property C16
// @   maypanic
// @   requires EMEQ(a, d) && CS_ROOM(a, d, target)
// @   ensures EMEQ_S(a, d)
// @   ensures EMEQ_CODE(a, d)
// @   ensures EMEQ_LINES(a, d)
// @   ensures EMEQ_LABELS(a, d)
// @   ensures EMEQ_S8(a, d)
// @   ensures EMEQ_U16(a, d)
func CloneStep_LDA_imm8_b(a, d *asm.Emitter, target []byte, m uint8) {
	c := a.Clone(target)
	c.LDA_imm8_b(m)
	a.Append(c)
	d.LDA_imm8_b(m)
}

// @ lemma CloneStep_BRA property C16
// @   maypanic
// @   requires EMEQ(a, d) && CS_ROOM(a, d, target)
// @   ensures EMEQ_S(a, d)
// @   ensures EMEQ_CODE(a, d)
// @   ensures EMEQ_LINES(a, d)
// @   ensures EMEQ_LABELS(a, d)
// @   ensures EMEQ_S8(a, d)
// @   ensures EMEQ_U16(a, d)
func CloneStep_BRA(a, d *asm.Emitter, target []byte, label string) {
	c := a.Clone(target)
	c.BRA(label)
	a.Append(c)
	d.BRA(label)
}

// @ lemma CloneStep_LDA_abs property C16
// @   maypanic
// @   requires EMEQ(a, d) && CS_ROOM(a, d, target)
// @   ensures EMEQ_S(a, d)
// @   ensures EMEQ_CODE(a, d)
// @   ensures EMEQ_LINES(a, d)
// @   ensures EMEQ_LABELS(a, d)
// @   ensures EMEQ_S8(a, d)
// @   ensures EMEQ_U16(a, d)
func CloneStep_LDA_abs(a, d *asm.Emitter, target []byte, addr uint16) {
	c := a.Clone(target)
	c.LDA_abs(addr)
	a.Append(c)
	d.LDA_abs(addr)
}

// @ lemma CloneStep_JMP_abs property C16
// @   maypanic
// @   requires EMEQ(a, d) && CS_ROOM(a, d, target)
// @   ensures EMEQ_S(a, d)
// @   ensures EMEQ_CODE(a, d)
// @   ensures EMEQ_LINES(a, d)
// @   ensures EMEQ_LABELS(a, d)
// @   ensures EMEQ_S8(a, d)
// @   ensures EMEQ_U16(a, d)
func CloneStep_JMP_abs(a, d *asm.Emitter, target []byte, label string) {
	c := a.Clone(target)
	c.JMP_abs(label)
	a.Append(c)
	d.JMP_abs(label)
}

// @ lemma CloneStep_JSL property C16
// @   maypanic
// @   requires EMEQ(a, d) && CS_ROOM(a, d, target)
// @   ensures EMEQ_S(a, d)
// @   ensures EMEQ_CODE(a, d)
// @   ensures EMEQ_LINES(a, d)
// @   ensures EMEQ_LABELS(a, d)
// @   ensures EMEQ_S8(a, d)
// @   ensures EMEQ_U16(a, d)
func CloneStep_JSL(a, d *asm.Emitter, target []byte, addr uint32) {
	c := a.Clone(target)
	c.JSL(addr)
	a.Append(c)
	d.JSL(addr)
}

// @ lemma CloneStep_EmitBytes property C16
// @   maypanic
// @   requires EMEQ(a, d) && CS_ROOM(a, d, target) && len(b) <= len(a.code)-a.n && len(b) <= len(d.code)-d.n && len(b) <= len(target)
// @   ensures EMEQ_S(a, d)
// @   ensures EMEQ_CODE(a, d)
// @   ensures len(a.lines) == len(d.lines)
// @   ensures all(k, int, 0 <= k && k < old(len(a.lines)) ==> LT(a, k) == LT(d, k) && a.lines[k].address == d.lines[k].address && BC(a, k) == BC(d, k))
// @   ensures EMEQ_LABELS(a, d)
// @   ensures EMEQ_S8(a, d)
// @   ensures EMEQ_U16(a, d)
func CloneStep_EmitBytes(a, d *asm.Emitter, target []byte, b []byte) {
	c := a.Clone(target)
	c.EmitBytes(b)
	a.Append(c)
	d.EmitBytes(b)
}

// @ lemma CloneStep_Label property C16
// @   maypanic
// @   requires EMEQ(a, d) && CS_ROOM(a, d, target)
// @   ensures EMEQ_S(a, d)
// @   ensures EMEQ_CODE(a, d)
// @   ensures EMEQ_LINES(a, d)
// @   ensures EMEQ_LABELS(a, d)
// @   ensures EMEQ_S8(a, d)
// @   ensures EMEQ_U16(a, d)
func CloneStep_Label(a, d *asm.Emitter, target []byte, name string) {
	c := a.Clone(target)
	c.Label(name)
	a.Append(c)
	d.Label(name)
}

// @ lemma CloneStep_Comment property C16
// @   maypanic
// @   requires EMEQ(a, d) && CS_ROOM(a, d, target)
// @   ensures EMEQ_S(a, d)
// @   ensures EMEQ_CODE(a, d)
// @   ensures EMEQ_LINES(a, d)
// @   ensures EMEQ_LABELS(a, d)
// @   ensures EMEQ_S8(a, d)
// @   ensures EMEQ_U16(a, d)
func CloneStep_Comment(a, d *asm.Emitter, target []byte, s string) {
	c := a.Clone(target)
	c.Comment(s)
	a.Append(c)
	d.Comment(s)
}
