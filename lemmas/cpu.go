package lemmas

import (
	"io"

	"github.com/alttpo/snes/emulator/bus"
	"github.com/alttpo/snes/emulator/cpu65c816"
	"github.com/alttpo/snes/emulator/cpualt"
	"github.com/alttpo/snes/emulator/memory"

	"verif/spec/w65c816"
)

// FlatReader / FlatWriter back every segment of a cpualt.Bus with one 16 MiB array.
func FlatReader(ram *[1 << 24]byte) cpualt.BusReader { return func(a uint32) uint8 { return ram[a] } }
func FlatWriter(ram *[1 << 24]byte) cpualt.BusWriter {
	return func(a uint32, v uint8) { ram[a] = v }
}

// ---- C08: with the whole bus mapped, Step never fails at runtime and stays below 2^24 ----
// The obligations are the implicit ones inside the real code: every index into the segment / reader /
// writer tables (address>>4 < 2^20) and into the RAM (address < 2^24), plus unreachability of panics; and the
// state the next step starts from is again one the lemma covers (flag bytes in {0,1}, no pending interrupt).

//@ lemma StepSafe65 property C08
//@   harness flat65 cpu=c op=op
//@   requires !has(c.OnPC, uint32(c.RK)<<16|uint32(c.PC))
//@   ensures c.N <= 1 && c.V <= 1 && c.M <= 1 && c.X <= 1 && c.D <= 1 && c.I <= 1 && c.Z <= 1 && c.C <= 1 && c.E <= 1 && c.Interrupt != 2 && c.Interrupt != 3

func StepSafe65(c *cpu65c816.CPU, op byte) { c.Step() }

//@ lemma StepSafeAlt property C08
//@   harness flatalt cpu=c op=op
//@   requires !has(c.OnPC, uint32(c.RK)<<16|uint32(c.PC))
//@   ensures c.N <= 1 && c.V <= 1 && c.M <= 1 && c.X <= 1 && c.D <= 1 && c.I <= 1 && c.Z <= 1 && c.C <= 1 && c.E <= 1 && c.Interrupt != 2 && c.Interrupt != 3

func StepSafeAlt(c *cpualt.CPU, op byte) { c.Step() }

// ---- C12: cycle accounting and stop flag of one Step ----

//@ lemma StepCycles65 property C12
//@   harness flat65 cpu=c op=op
//@   nosafety
//@   requires !has(c.OnPC, uint32(c.RK)<<16|uint32(c.PC))
//@   ensures ret1 >= 1 && ret1 <= 32
//@   ensures ret1 == int(c.Cycles)
//@   ensures c.AllCycles == old(c.AllCycles) + uint64(ret1)
//@   ensures ret2 == c.Stopped
//@   ensures c.Stopped == (old(c.Stopped) || op == 0xDB)
//@   ensures c.N <= 1 && c.V <= 1 && c.M <= 1 && c.X <= 1 && c.D <= 1 && c.I <= 1 && c.Z <= 1 && c.C <= 1 && c.E <= 1 && c.Interrupt != 2 && c.Interrupt != 3

func StepCycles65(c *cpu65c816.CPU, op byte) (int, bool) { return c.Step() }

//@ lemma StepCyclesAlt property C12
//@   harness flatalt cpu=c op=op
//@   nosafety
//@   requires !has(c.OnPC, uint32(c.RK)<<16|uint32(c.PC))
//@   ensures ret1 >= 1 && ret1 <= 32
//@   ensures ret1 == int(c.Cycles)
//@   ensures c.AllCycles == old(c.AllCycles) + uint64(ret1)
//@   ensures ret2 == c.Stopped
//@   ensures c.Stopped == (old(c.Stopped) || op == 0xDB)
//@   ensures c.N <= 1 && c.V <= 1 && c.M <= 1 && c.X <= 1 && c.D <= 1 && c.I <= 1 && c.Z <= 1 && c.C <= 1 && c.E <= 1 && c.Interrupt != 2 && c.Interrupt != 3

func StepCyclesAlt(c *cpualt.CPU, op byte) (int, bool) { return c.Step() }

// NewFlat65 / NewFlatAlt build what the flat65 / flatalt harnesses describe, natively: a CPU whose whole
// 16 MiB address space is backed by one array. Used when a counterexample is replayed on the real code.
func NewFlat65(ram *[1 << 24]byte) *cpu65c816.CPU {
	b, _ := bus.New()
	if err := b.Attach(memory.NewRAM(ram[:], 0), "ram", 0, 0xFFFFFF); err != nil {
		panic(err)
	}
	c := &cpu65c816.CPU{}
	c.Init(b)
	c.Interrupt = 1
	return c
}

func NewFlatAlt(ram *[1 << 24]byte) *cpualt.CPU {
	c := &cpualt.CPU{}
	c.Init()
	c.Bus.AttachReader(0, 0xFFFFFF, FlatReader(ram))
	c.Bus.AttachWriter(0, 0xFFFFFF, FlatWriter(ram))
	c.Interrupt = 1
	return c
}

// ---- C02: the two interpreters are observationally equivalent, step for step ----
// Both real Step functions run from the same symbolic state (flags in {0,1}, any E / D / widths), each
// on its own flat RAM with equal contents. Equality of every register, flag, status, cycle count and of
// the whole memory afterwards is the inductive lockstep invariant.

//@ lemma StepEquiv property C02
//@   harness flatboth a=a b=b ram1=ram1 ram2=ram2 op=op
//@   nosafety
//@   ensures n1 == n2 && s1 == s2
//@   ensures a.AllCycles == b.AllCycles
//@   ensures a.Cycles == b.Cycles
//@   ensures a.Stopped == b.Stopped
//@   ensures a.PRK == b.PRK
//@   ensures a.PPC == b.PPC
//@   ensures a.WDM == b.WDM
//@   ensures a.PC == b.PC
//@   ensures a.SP == b.SP
//@   ensures a.RA == b.RA
//@   ensures a.RX == b.RX
//@   ensures a.RY == b.RY
//@   ensures a.RAh == b.RAh
//@   ensures a.RAl == b.RAl
//@   ensures a.RXl == b.RXl
//@   ensures a.RYl == b.RYl
//@   ensures a.RDBR == b.RDBR
//@   ensures a.RD == b.RD
//@   ensures a.RK == b.RK
//@   ensures a.N == b.N
//@   ensures a.V == b.V
//@   ensures a.M == b.M
//@   ensures a.X == b.X
//@   ensures a.D == b.D
//@   ensures a.I == b.I
//@   ensures a.Z == b.Z
//@   ensures a.C == b.C
//@   ensures a.B == b.B
//@   ensures a.E == b.E
//@   ensures a.Interrupt == b.Interrupt
//@   ensures all(k, uint32, k < 0x1000000 ==> ram1[k] == ram2[k])

func StepEquiv(a *cpu65c816.CPU, b *cpualt.CPU, ram1, ram2 *[1 << 24]byte, op byte) (n1 int, s1 bool, n2 int, s2 bool) {
	n1, s1 = a.Step()
	n2, s2 = b.Step()
	return
}

// ---- C01: each interpreter refines the WDC reference model (spec/w65c816) in native mode ----

// Abs65 is the abstraction function: the architectural state an interpreter state denotes.
func Abs65(c *cpu65c816.CPU) w65c816.State {
	var s w65c816.State
	if c.M == 1 {
		s.A = uint16(c.RAh)<<8 | uint16(c.RAl)
	} else {
		s.A = c.RA
	}
	if c.X == 1 {
		s.X = uint16(c.RXl)
		s.Y = uint16(c.RYl)
	} else {
		s.X = c.RX
		s.Y = c.RY
	}
	s.S, s.D, s.PC = c.SP, c.RD, c.PC
	s.DBR, s.K, s.E = c.RDBR, c.RK, c.E
	s.P = c.C | c.Z<<1 | c.I<<2 | c.D<<3 | c.X<<4 | c.M<<5 | c.V<<6 | c.N<<7
	return s
}

// AbsAlt is the abstraction function: the architectural state an interpreter state denotes.
func AbsAlt(c *cpualt.CPU) w65c816.State {
	var s w65c816.State
	if c.M == 1 {
		s.A = uint16(c.RAh)<<8 | uint16(c.RAl)
	} else {
		s.A = c.RA
	}
	if c.X == 1 {
		s.X = uint16(c.RXl)
		s.Y = uint16(c.RYl)
	} else {
		s.X = c.RX
		s.Y = c.RY
	}
	s.S, s.D, s.PC = c.SP, c.RD, c.PC
	s.DBR, s.K, s.E = c.RDBR, c.RK, c.E
	s.P = c.C | c.Z<<1 | c.I<<2 | c.D<<3 | c.X<<4 | c.M<<5 | c.V<<6 | c.N<<7
	return s
}

//@ lemma StepRefines65 property C01
//@   harness flat65 cpu=c ram=ram ram2=ram2 op=op
//@   nosafety
//@   requires c.E == 0 && !has(c.OnPC, uint32(c.RK)<<16|uint32(c.PC))
//@   ensures !spec.DecUndef ==> impl.A == spec.A
//@   ensures old(c.M) == 1 ==> impl.A>>8 == spec.A>>8
//@   ensures impl.X == spec.X
//@   ensures impl.Y == spec.Y
//@   ensures impl.S == spec.S
//@   ensures impl.D == spec.D
//@   ensures impl.PC == spec.PC
//@   ensures impl.DBR == spec.DBR
//@   ensures impl.K == spec.K
//@   ensures (old(c.D) == 0 || !w65c816.IsDecimalArith(op)) ==> impl.P == spec.P
//@   ensures (old(c.D) == 1 && w65c816.IsDecimalArith(op) && !spec.DecUndef) ==> impl.P|0x40 == spec.P|0x40
//@   ensures impl.P&0x3C == spec.P&0x3C
//@   ensures impl.E == spec.E
//@   ensures all(k, uint32, k < 0x1000000 ==> ram[k] == ram2[k])
//@   ensures c.N <= 1 && c.V <= 1 && c.M <= 1 && c.X <= 1 && c.D <= 1 && c.I <= 1 && c.Z <= 1 && c.C <= 1 && c.E <= 1
//@   ensures c.Interrupt != 2 && c.Interrupt != 3

func StepRefines65(c *cpu65c816.CPU, ram, ram2 *[1 << 24]byte, op byte) (impl, spec w65c816.State) {
	spec = Abs65(c)
	c.Step()
	w65c816.Step(&spec, ram2, op)
	impl = Abs65(c)
	return
}

//@ lemma StepRefinesAlt property C01
//@   harness flatalt cpu=c ram=ram ram2=ram2 op=op
//@   nosafety
//@   requires c.E == 0 && !has(c.OnPC, uint32(c.RK)<<16|uint32(c.PC))
//@   ensures !spec.DecUndef ==> impl.A == spec.A
//@   ensures old(c.M) == 1 ==> impl.A>>8 == spec.A>>8
//@   ensures impl.X == spec.X
//@   ensures impl.Y == spec.Y
//@   ensures impl.S == spec.S
//@   ensures impl.D == spec.D
//@   ensures impl.PC == spec.PC
//@   ensures impl.DBR == spec.DBR
//@   ensures impl.K == spec.K
//@   ensures (old(c.D) == 0 || !w65c816.IsDecimalArith(op)) ==> impl.P == spec.P
//@   ensures (old(c.D) == 1 && w65c816.IsDecimalArith(op) && !spec.DecUndef) ==> impl.P|0x40 == spec.P|0x40
//@   ensures impl.P&0x3C == spec.P&0x3C
//@   ensures impl.E == spec.E
//@   ensures all(k, uint32, k < 0x1000000 ==> ram[k] == ram2[k])
//@   ensures c.N <= 1 && c.V <= 1 && c.M <= 1 && c.X <= 1 && c.D <= 1 && c.I <= 1 && c.Z <= 1 && c.C <= 1 && c.E <= 1
//@   ensures c.Interrupt != 2 && c.Interrupt != 3

func StepRefinesAlt(c *cpualt.CPU, ram, ram2 *[1 << 24]byte, op byte) (impl, spec w65c816.State) {
	spec = AbsAlt(c)
	c.Step()
	w65c816.Step(&spec, ram2, op)
	impl = AbsAlt(c)
	return
}

// ---- C12: callbacks ----
// A registered program-counter callback runs exactly once per Step fetched at its address (and nothing else is
// called for opcodes other than WDM); the WDM callback receives exactly the WDM operand byte.

//@ lemma StepOnPC65 property C12
//@   harness flat65 cpu=c ram=ram op=op
//@   nosafety
//@   requires has(c.OnPC, uint32(c.RK)<<16|uint32(c.PC)) && !isnil(c.OnPC[uint32(c.RK)<<16|uint32(c.PC)])
//@   ensures op != 0x42 ==> ncalls("func.call") == 1
//@   ensures op != 0x42 ==> callarg("func.call", 0) == old(c.OnPC[uint32(c.RK)<<16|uint32(c.PC)])

func StepOnPC65(c *cpu65c816.CPU, ram *[1 << 24]byte, op byte) { c.Step() }

//@ lemma StepOnPCAlt property C12
//@   harness flatalt cpu=c ram=ram op=op
//@   nosafety
//@   requires has(c.OnPC, uint32(c.RK)<<16|uint32(c.PC)) && !isnil(c.OnPC[uint32(c.RK)<<16|uint32(c.PC)])
//@   ensures op != 0x42 ==> ncalls("func.call") == 1
//@   ensures op != 0x42 ==> callarg("func.call", 0) == old(c.OnPC[uint32(c.RK)<<16|uint32(c.PC)])

func StepOnPCAlt(c *cpualt.CPU, ram *[1 << 24]byte, op byte) { c.Step() }

//@ lemma StepWDM65 property C12
//@   harness flat65 cpu=c ram=ram op=op
//@   ops 42
//@   nosafety
//@   requires !has(c.OnPC, uint32(c.RK)<<16|uint32(c.PC)) && !isnil(c.OnWDM)
//@   ensures ncalls("func.call") == 1 && callarg("func.call", 0) == old(c.OnWDM)
//@   ensures callarg("func.call", 1) == old(ram[uint32(c.RK)<<16|uint32(c.PC+1)]) && c.WDM == old(ram[uint32(c.RK)<<16|uint32(c.PC+1)])

func StepWDM65(c *cpu65c816.CPU, ram *[1 << 24]byte, op byte) { c.Step() }

//@ lemma StepWDMAlt property C12
//@   harness flatalt cpu=c ram=ram op=op
//@   ops 42
//@   nosafety
//@   requires !has(c.OnPC, uint32(c.RK)<<16|uint32(c.PC)) && !isnil(c.OnWDM)
//@   ensures ncalls("func.call") == 1 && callarg("func.call", 0) == old(c.OnWDM)
//@   ensures callarg("func.call", 1) == old(ram[uint32(c.RK)<<16|uint32(c.PC+1)]) && c.WDM == old(ram[uint32(c.RK)<<16|uint32(c.PC+1)])

func StepWDMAlt(c *cpualt.CPU, ram *[1 << 24]byte, op byte) { c.Step() }

// ---- C14: a trace line is truthful and producing it does not perturb the machine ----
// Layout of the line after the decimal cycle count (n0 = len-70): TAB K(2) ':' PC(4) '|' bytes(11) '|' name(3) ' '
// operand(13) '|' registers(21) ' ' flags(8) NL. The frame clause (assigns only the bus debug fields) is the
// non-perturbation half: CPU state and all of RAM are unchanged.

//@ define OPW1() old(ram[uint32(c.RK)<<16|uint32(c.PC+1)])
//@ define OPW2() old(ram[uint32(c.RK)<<16|uint32(c.PC+2)])
//@ define OPW3() old(ram[uint32(c.RK)<<16|uint32(c.PC+3)])
//@ define OPWIDE() ((w65c816.IsImmM(op) && c.M == 0) || (w65c816.IsImmX(op) && c.X == 0))
//@ define OPCH(k) (k < w65c816.TraceOperandWidth(op) ==> ret1[len(ret1)-w65c816.TraceTail(op)+25+k] == w65c816.TraceOperandChar(op, OPWIDE(), k, OPW1(), OPW2(), OPW3(), c.PC))

//@ lemma Trace65 property C14
//@   harness flat65 cpu=c ram=ram op=op
//@   nosafety
//@   ensures len(ret1) >= w65c816.TraceTail(op)+1 && len(ret1) <= w65c816.TraceTail(op)+20
//@   ensures ret1[len(ret1)-w65c816.TraceTail(op)+0] == '\t' && ret1[len(ret1)-w65c816.TraceTail(op)+3] == ':' && ret1[len(ret1)-w65c816.TraceTail(op)+8] == '|' && ret1[len(ret1)-w65c816.TraceTail(op)+20] == '|' && ret1[len(ret1)-w65c816.TraceTail(op)+24] == ' ' && ret1[len(ret1)-70+38] == '|' && ret1[len(ret1)-70+60] == ' ' && ret1[len(ret1)-70+69] == '\n'
//@   ensures w65c816.HexVal(ret1[len(ret1)-w65c816.TraceTail(op)+1])*16 + w65c816.HexVal(ret1[len(ret1)-w65c816.TraceTail(op)+2]) == uint32(c.RK)
//@   ensures w65c816.HexVal(ret1[len(ret1)-w65c816.TraceTail(op)+4])*4096 + w65c816.HexVal(ret1[len(ret1)-w65c816.TraceTail(op)+5])*256 + w65c816.HexVal(ret1[len(ret1)-w65c816.TraceTail(op)+6])*16 + w65c816.HexVal(ret1[len(ret1)-w65c816.TraceTail(op)+7]) == uint32(c.PC)
//@   ensures w65c816.HexVal(ret1[len(ret1)-w65c816.TraceTail(op)+9])*16 + w65c816.HexVal(ret1[len(ret1)-w65c816.TraceTail(op)+10]) == uint32(op)
//@   ensures w65c816.Len(op, c.M == 0, c.X == 0) > 1 ==> ret1[len(ret1)-w65c816.TraceTail(op)+11] == ' ' && w65c816.HexVal(ret1[len(ret1)-w65c816.TraceTail(op)+12])*16 + w65c816.HexVal(ret1[len(ret1)-w65c816.TraceTail(op)+13]) == uint32(old(ram[uint32(c.RK)<<16|uint32(c.PC+1)]))
//@   ensures w65c816.Len(op, c.M == 0, c.X == 0) <= 1 ==> ret1[len(ret1)-w65c816.TraceTail(op)+11] == ' ' && ret1[len(ret1)-w65c816.TraceTail(op)+12] == ' ' && ret1[len(ret1)-w65c816.TraceTail(op)+13] == ' '
//@   ensures w65c816.Len(op, c.M == 0, c.X == 0) > 2 ==> ret1[len(ret1)-w65c816.TraceTail(op)+14] == ' ' && w65c816.HexVal(ret1[len(ret1)-w65c816.TraceTail(op)+15])*16 + w65c816.HexVal(ret1[len(ret1)-w65c816.TraceTail(op)+16]) == uint32(old(ram[uint32(c.RK)<<16|uint32(c.PC+2)]))
//@   ensures w65c816.Len(op, c.M == 0, c.X == 0) <= 2 ==> ret1[len(ret1)-w65c816.TraceTail(op)+14] == ' ' && ret1[len(ret1)-w65c816.TraceTail(op)+15] == ' ' && ret1[len(ret1)-w65c816.TraceTail(op)+16] == ' '
//@   ensures w65c816.Len(op, c.M == 0, c.X == 0) > 3 ==> ret1[len(ret1)-w65c816.TraceTail(op)+17] == ' ' && w65c816.HexVal(ret1[len(ret1)-w65c816.TraceTail(op)+18])*16 + w65c816.HexVal(ret1[len(ret1)-w65c816.TraceTail(op)+19]) == uint32(old(ram[uint32(c.RK)<<16|uint32(c.PC+3)]))
//@   ensures w65c816.Len(op, c.M == 0, c.X == 0) <= 3 ==> ret1[len(ret1)-w65c816.TraceTail(op)+17] == ' ' && ret1[len(ret1)-w65c816.TraceTail(op)+18] == ' ' && ret1[len(ret1)-w65c816.TraceTail(op)+19] == ' '
//@   ensures ret1[len(ret1)-w65c816.TraceTail(op)+21] == w65c816.TraceName(op)[0] && ret1[len(ret1)-w65c816.TraceTail(op)+22] == w65c816.TraceName(op)[1] && ret1[len(ret1)-w65c816.TraceTail(op)+23] == w65c816.TraceName(op)[2]
//@   ensures w65c816.Mode(op) == "rel8" ==> w65c816.HexVal(ret1[len(ret1)-w65c816.TraceTail(op)+31])*4096 + w65c816.HexVal(ret1[len(ret1)-w65c816.TraceTail(op)+32])*256 + w65c816.HexVal(ret1[len(ret1)-w65c816.TraceTail(op)+33])*16 + w65c816.HexVal(ret1[len(ret1)-w65c816.TraceTail(op)+34]) == uint32(c.PC + 2 + uint16(int8(old(ram[uint32(c.RK)<<16|uint32(c.PC+1)]))))
//@   ensures OPCH(0)
//@   ensures OPCH(1)
//@   ensures OPCH(2)
//@   ensures OPCH(3)
//@   ensures OPCH(4)
//@   ensures OPCH(5)
//@   ensures OPCH(6)
//@   ensures OPCH(7)
//@   ensures OPCH(8)
//@   ensures OPCH(9)
//@   ensures OPCH(10)
//@   ensures OPCH(11)
//@   ensures OPCH(12)
//@   ensures c.M == 0 ==> w65c816.HexVal(ret1[len(ret1)-70+42])*4096 + w65c816.HexVal(ret1[len(ret1)-70+43])*256 + w65c816.HexVal(ret1[len(ret1)-70+44])*16 + w65c816.HexVal(ret1[len(ret1)-70+45]) == uint32(c.RA)
//@   ensures c.M != 0 ==> ret1[len(ret1)-70+42] == '-' && ret1[len(ret1)-70+43] == '-' && w65c816.HexVal(ret1[len(ret1)-70+44])*16 + w65c816.HexVal(ret1[len(ret1)-70+45]) == uint32(c.RAl)
//@   ensures c.X == 0 ==> w65c816.HexVal(ret1[len(ret1)-70+49])*4096 + w65c816.HexVal(ret1[len(ret1)-70+50])*256 + w65c816.HexVal(ret1[len(ret1)-70+51])*16 + w65c816.HexVal(ret1[len(ret1)-70+52]) == uint32(c.RX) && w65c816.HexVal(ret1[len(ret1)-70+56])*4096 + w65c816.HexVal(ret1[len(ret1)-70+57])*256 + w65c816.HexVal(ret1[len(ret1)-70+58])*16 + w65c816.HexVal(ret1[len(ret1)-70+59]) == uint32(c.RY)
//@   ensures c.X != 0 ==> ret1[len(ret1)-70+49] == '-' && ret1[len(ret1)-70+50] == '-' && w65c816.HexVal(ret1[len(ret1)-70+51])*16 + w65c816.HexVal(ret1[len(ret1)-70+52]) == uint32(c.RXl) && ret1[len(ret1)-70+56] == '-' && ret1[len(ret1)-70+57] == '-' && w65c816.HexVal(ret1[len(ret1)-70+58])*16 + w65c816.HexVal(ret1[len(ret1)-70+59]) == uint32(c.RYl)
//@   ensures ret1[len(ret1)-70+61] == ite(c.N > 0, 'N', '-')
//@   ensures ret1[len(ret1)-70+62] == ite(c.V > 0, 'V', '-')
//@   ensures ret1[len(ret1)-70+63] == ite(c.M > 0, 'M', '-')
//@   ensures ret1[len(ret1)-70+64] == ite(c.X > 0, 'X', '-')
//@   ensures ret1[len(ret1)-70+65] == ite(c.D > 0, 'D', '-')
//@   ensures ret1[len(ret1)-70+66] == ite(c.I > 0, 'I', '-')
//@   ensures ret1[len(ret1)-70+67] == ite(c.Z > 0, 'Z', '-')
//@   ensures ret1[len(ret1)-70+68] == ite(c.C > 0, 'C', '-')
//@   assigns c.Bus.EA, c.Bus.Write

func Trace65(c *cpu65c816.CPU, ram *[1 << 24]byte, op byte) []byte {
	var oa [100]byte
	return c.DisassembleCurrentPC(oa[:0])
}

// cpualt renders its trace through fmt: the text is not modelled, the frame is (only the bus's last-data byte).

//@ lemma TraceAlt property C14
//@   harness flatalt cpu=c ram=ram op=op
//@   nosafety
//@   assigns c.Bus.M

func TraceAlt(c *cpualt.CPU, ram *[1 << 24]byte, op byte, w io.Writer) { c.DisassembleCurrentPC(w) }

// ---- C12: "... until the CPU is reset": Reset clears the stop condition (and loads the reset vector) ----

//@ lemma Reset65 property C12
//@   harness flat65 cpu=c ram=ram op=op
//@   ops EA
//@   nosafety
//@   ensures !c.Stopped && c.RK == 0 && c.RDBR == 0 && c.RD == 0 && c.SP == 0x01ff
//@   ensures c.PC == uint16(old(ram[0xFFFC])) | uint16(old(ram[0xFFFD]))<<8

func Reset65(c *cpu65c816.CPU, ram *[1 << 24]byte, op byte) { c.Reset() }

//@ lemma ResetAlt property C12
//@   harness flatalt cpu=c ram=ram op=op
//@   ops EA
//@   nosafety
//@   ensures !c.Stopped && c.RK == 0 && c.RDBR == 0 && c.RD == 0 && c.SP == 0x01ff
//@   ensures c.PC == uint16(old(ram[0xFFFC])) | uint16(old(ram[0xFFFD]))<<8

func ResetAlt(c *cpualt.CPU, ram *[1 << 24]byte, op byte) { c.Reset() }

// A stopped CPU stays stopped whatever is at K:PC (the stop condition holds "from the moment STP has executed").

//@ lemma StoppedStays65 property C12
//@   harness flat65 cpu=c ram=ram op=op
//@   nosafety
//@   requires c.Stopped
//@   ensures c.Stopped && ret2 && ret1 >= 1

func StoppedStays65(c *cpu65c816.CPU, ram *[1 << 24]byte, op byte) (int, bool) { return c.Step() }

//@ lemma StoppedStaysAlt property C12
//@   harness flatalt cpu=c ram=ram op=op
//@   nosafety
//@   requires c.Stopped
//@   ensures c.Stopped && ret2 && ret1 >= 1

func StoppedStaysAlt(c *cpualt.CPU, ram *[1 << 24]byte, op byte) (int, bool) { return c.Step() }
