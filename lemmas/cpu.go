package lemmas

import (
	"github.com/alttpo/snes/emulator/bus"
	"github.com/alttpo/snes/emulator/cpu65c816"
	"github.com/alttpo/snes/emulator/cpualt"
	"github.com/alttpo/snes/emulator/memory"
)

// FlatReader / FlatWriter back every segment of a cpualt.Bus with one 16 MiB array.
func FlatReader(ram *[1 << 24]byte) cpualt.BusReader { return func(a uint32) uint8 { return ram[a] } }
func FlatWriter(ram *[1 << 24]byte) cpualt.BusWriter {
	return func(a uint32, v uint8) { ram[a] = v }
}

// ---- C08: with the whole bus mapped, Step never fails at runtime and stays below 2^24 ----
// The obligations are the implicit ones inside the real code: every index into the segment / reader /
// writer tables (address>>4 < 2^20) and into the RAM (address < 2^24), plus unreachability of panics.

//@ lemma StepSafe65 property C08
//@   harness flat65 cpu=c op=op
//@   requires !has(c.OnPC, uint32(c.RK)<<16|uint32(c.PC))

func StepSafe65(c *cpu65c816.CPU, op byte) { c.Step() }

//@ lemma StepSafeAlt property C08
//@   harness flatalt cpu=c op=op
//@   requires !has(c.OnPC, uint32(c.RK)<<16|uint32(c.PC))

func StepSafeAlt(c *cpualt.CPU, op byte) { c.Step() }

// ---- C12: cycle accounting and stop flag of one Step ----

//@ lemma StepCycles65 property C12
//@   harness flat65 cpu=c op=op
//@   nosafety
//@   requires !has(c.OnPC, uint32(c.RK)<<16|uint32(c.PC))
//@   ensures ret1 >= 1 && ret1 <= 32
//@   ensures ret1 == int(c.Cycles)
//@   ensures c.AllCycles == old(c.AllCycles) + uint64(ret1)
//@   ensures ret2 == c.Stopped
//@   ensures c.Stopped == (old(c.Stopped) || op == 0xDB)

func StepCycles65(c *cpu65c816.CPU, op byte) (int, bool) { return c.Step() }

//@ lemma StepCyclesAlt property C12
//@   harness flatalt cpu=c op=op
//@   nosafety
//@   requires !has(c.OnPC, uint32(c.RK)<<16|uint32(c.PC))
//@   ensures ret1 >= 1 && ret1 <= 32
//@   ensures ret1 == int(c.Cycles)
//@   ensures c.AllCycles == old(c.AllCycles) + uint64(ret1)
//@   ensures ret2 == c.Stopped
//@   ensures c.Stopped == (old(c.Stopped) || op == 0xDB)

func StepCyclesAlt(c *cpualt.CPU, op byte) (int, bool) { return c.Step() }

// NewFlat65 / NewFlatAlt build what the flat65 / flatalt harnesses describe, natively: a CPU whose whole
// 16 MiB address space is backed by one array. Used when a counterexample is replayed on the real code.
func NewFlat65(ram *[1 << 24]byte) *cpu65c816.CPU {
	b, _ := bus.New()
	if err := b.Attach(memory.NewRAM(ram[:], 0), "ram", 0, 0xFFFFFF); err != nil {
		panic(err)
	}
	c := &cpu65c816.CPU{}
	c.Init(b)
	c.Interrupt = 1
	return c
}

func NewFlatAlt(ram *[1 << 24]byte) *cpualt.CPU {
	c := &cpualt.CPU{}
	c.Init()
	c.Bus.AttachReader(0, 0xFFFFFF, FlatReader(ram))
	c.Bus.AttachWriter(0, 0xFFFFFF, FlatWriter(ram))
	c.Interrupt = 1
	return c
}
