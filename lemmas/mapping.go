// Package lemmas holds lemma functions: ordinary Go code that calls the REAL repository functions,
// with //@ contracts checked by snesvc. A lemma is proved for all inputs satisfying its requires.
package lemmas

import (
	"github.com/alttpo/snes/mapping/exhirom"
	"github.com/alttpo/snes/mapping/hirom"
	"github.com/alttpo/snes/mapping/lorom"
	"github.com/alttpo/snes/mapping/sa1rom"
)

// ---- LoROM ----

// @ lemma LoROMWindow property C05
// @   requires a < 0x1000000
// @   ensures err == nil ==> mapspec.InWindow(p)
// @   ensures err != nil ==> p == 0 && err == util.ErrUnmappedAddress
func LoROMWindow(a uint32) (p uint32, err error) { return lorom.BusAddressToPak(a) }

// @ lemma LoROMConsole property C05
// @   requires a < 0x1000000 && mapspec.ConsoleDecided(a)
// @   ensures (err == nil) == mapspec.ConsoleOk(a)
// @   ensures err == nil ==> p == mapspec.ConsolePak(a)
func LoROMConsole(a uint32) (p uint32, err error) { return lorom.BusAddressToPak(a) }

// @ lemma LoROMPages property C05
// @   requires a < 0x1000000 && b < 0x1000000 && a>>13 == b>>13
// @   ensures (ea == nil) == (eb == nil)
// @   ensures ea == nil ==> pa - pb == a - b
func LoROMPages(a, b uint32) (pa uint32, ea error, pb uint32, eb error) {
	pa, ea = lorom.BusAddressToPak(a)
	pb, eb = lorom.BusAddressToPak(b)
	return
}

// @ lemma LoROMPakPages property C05
// @   requires p < 0x1000000 && q < 0x1000000 && p>>13 == q>>13
// @   ensures (ep == nil) == (eq == nil)
// @   ensures ep == nil ==> bp - bq == p - q
func LoROMPakPages(p, q uint32) (bp uint32, ep error, bq uint32, eq error) {
	bp, ep = lorom.PakAddressToBus(p)
	bq, eq = lorom.PakAddressToBus(q)
	return
}

// @ lemma LoROMPakToBusSound property C04 C05
// @   requires p < 0x1000000
// @   ensures e1 == nil ==> e2 == nil && b < 0x1000000
// @   ensures e1 == nil ==> mapspec.Class(q) == mapspec.Class(p)
// @   ensures e1 == nil ==> q&0x1FFF == p&0x1FFF && b&0x1FFF == p&0x1FFF
func LoROMPakToBusSound(p uint32) (b uint32, e1 error, q uint32, e2 error) {
	b, e1 = lorom.PakAddressToBus(p)
	if e1 != nil {
		return
	}
	q, e2 = lorom.BusAddressToPak(b)
	return
}

// @ lemma LoROMRoundTrip property C04
// @   requires a < 0x1000000
// @   ensures e1 == nil ==> e2 == nil && e3 == nil && q == p
func LoROMRoundTrip(a uint32) (p uint32, e1 error, b uint32, e2 error, q uint32, e3 error) {
	p, e1 = lorom.BusAddressToPak(a)
	if e1 != nil {
		return
	}
	b, e2 = lorom.PakAddressToBus(p)
	if e2 != nil {
		return
	}
	q, e3 = lorom.BusAddressToPak(b)
	return
}

// ---- HiROM ----

// @ lemma HiROMWindow property C05
// @   requires a < 0x1000000
// @   ensures err == nil ==> mapspec.InWindow(p)
// @   ensures err != nil ==> p == 0 && err == util.ErrUnmappedAddress
func HiROMWindow(a uint32) (p uint32, err error) { return hirom.BusAddressToPak(a) }

// @ lemma HiROMConsole property C05
// @   requires a < 0x1000000 && mapspec.ConsoleDecided(a)
// @   ensures (err == nil) == mapspec.ConsoleOk(a)
// @   ensures err == nil ==> p == mapspec.ConsolePak(a)
func HiROMConsole(a uint32) (p uint32, err error) { return hirom.BusAddressToPak(a) }

// @ lemma HiROMPages property C05
// @   requires a < 0x1000000 && b < 0x1000000 && a>>13 == b>>13
// @   ensures (ea == nil) == (eb == nil)
// @   ensures ea == nil ==> pa - pb == a - b
func HiROMPages(a, b uint32) (pa uint32, ea error, pb uint32, eb error) {
	pa, ea = hirom.BusAddressToPak(a)
	pb, eb = hirom.BusAddressToPak(b)
	return
}

// @ lemma HiROMPakPages property C05
// @   requires p < 0x1000000 && q < 0x1000000 && p>>13 == q>>13
// @   ensures (ep == nil) == (eq == nil)
// @   ensures ep == nil ==> bp - bq == p - q
func HiROMPakPages(p, q uint32) (bp uint32, ep error, bq uint32, eq error) {
	bp, ep = hirom.PakAddressToBus(p)
	bq, eq = hirom.PakAddressToBus(q)
	return
}

// @ lemma HiROMPakToBusSound property C04 C05
// @   requires p < 0x1000000
// @   ensures e1 == nil ==> e2 == nil && b < 0x1000000
// @   ensures e1 == nil ==> mapspec.Class(q) == mapspec.Class(p)
// @   ensures e1 == nil ==> q&0x1FFF == p&0x1FFF && b&0x1FFF == p&0x1FFF
func HiROMPakToBusSound(p uint32) (b uint32, e1 error, q uint32, e2 error) {
	b, e1 = hirom.PakAddressToBus(p)
	if e1 != nil {
		return
	}
	q, e2 = hirom.BusAddressToPak(b)
	return
}

// @ lemma HiROMRoundTrip property C04
// @   requires a < 0x1000000
// @   ensures e1 == nil ==> e2 == nil && e3 == nil && q == p
func HiROMRoundTrip(a uint32) (p uint32, e1 error, b uint32, e2 error, q uint32, e3 error) {
	p, e1 = hirom.BusAddressToPak(a)
	if e1 != nil {
		return
	}
	b, e2 = hirom.PakAddressToBus(p)
	if e2 != nil {
		return
	}
	q, e3 = hirom.BusAddressToPak(b)
	return
}

// ---- ExHiROM ----

// @ lemma ExHiROMWindow property C05
// @   requires a < 0x1000000
// @   ensures err == nil ==> mapspec.InWindow(p)
// @   ensures err != nil ==> p == 0 && err == util.ErrUnmappedAddress
func ExHiROMWindow(a uint32) (p uint32, err error) { return exhirom.BusAddressToPak(a) }

// @ lemma ExHiROMConsole property C05
// @   requires a < 0x1000000 && mapspec.ConsoleDecided(a)
// @   ensures (err == nil) == mapspec.ConsoleOk(a)
// @   ensures err == nil ==> p == mapspec.ConsolePak(a)
func ExHiROMConsole(a uint32) (p uint32, err error) { return exhirom.BusAddressToPak(a) }

// @ lemma ExHiROMPages property C05
// @   requires a < 0x1000000 && b < 0x1000000 && a>>13 == b>>13
// @   ensures (ea == nil) == (eb == nil)
// @   ensures ea == nil ==> pa - pb == a - b
func ExHiROMPages(a, b uint32) (pa uint32, ea error, pb uint32, eb error) {
	pa, ea = exhirom.BusAddressToPak(a)
	pb, eb = exhirom.BusAddressToPak(b)
	return
}

// @ lemma ExHiROMPakPages property C05
// @   requires p < 0x1000000 && q < 0x1000000 && p>>13 == q>>13
// @   ensures (ep == nil) == (eq == nil)
// @   ensures ep == nil ==> bp - bq == p - q
func ExHiROMPakPages(p, q uint32) (bp uint32, ep error, bq uint32, eq error) {
	bp, ep = exhirom.PakAddressToBus(p)
	bq, eq = exhirom.PakAddressToBus(q)
	return
}

// @ lemma ExHiROMPakToBusSound property C04 C05
// @   requires p < 0x1000000
// @   ensures e1 == nil ==> e2 == nil && b < 0x1000000
// @   ensures e1 == nil ==> mapspec.Class(q) == mapspec.Class(p)
// @   ensures e1 == nil ==> q&0x1FFF == p&0x1FFF && b&0x1FFF == p&0x1FFF
func ExHiROMPakToBusSound(p uint32) (b uint32, e1 error, q uint32, e2 error) {
	b, e1 = exhirom.PakAddressToBus(p)
	if e1 != nil {
		return
	}
	q, e2 = exhirom.BusAddressToPak(b)
	return
}

// @ lemma ExHiROMRoundTrip property C04
// @   requires a < 0x1000000
// @   ensures e1 == nil ==> e2 == nil && e3 == nil && q == p
func ExHiROMRoundTrip(a uint32) (p uint32, e1 error, b uint32, e2 error, q uint32, e3 error) {
	p, e1 = exhirom.BusAddressToPak(a)
	if e1 != nil {
		return
	}
	b, e2 = exhirom.PakAddressToBus(p)
	if e2 != nil {
		return
	}
	q, e3 = exhirom.BusAddressToPak(b)
	return
}

// ---- SA1 ----

// @ lemma SA1Window property C05
// @   requires a < 0x1000000
// @   ensures err == nil ==> mapspec.InWindow(p)
// @   ensures err != nil ==> p == 0 && err == util.ErrUnmappedAddress
func SA1Window(a uint32) (p uint32, err error) { return sa1rom.BusAddressToPak(a) }

// @ lemma SA1Console property C05
// @   requires a < 0x1000000 && mapspec.ConsoleDecided(a)
// @   ensures (err == nil) == mapspec.ConsoleOk(a)
// @   ensures err == nil ==> p == mapspec.ConsolePak(a)
func SA1Console(a uint32) (p uint32, err error) { return sa1rom.BusAddressToPak(a) }

// @ lemma SA1Pages property C05
// @   requires a < 0x1000000 && b < 0x1000000 && a>>13 == b>>13
// @   ensures (ea == nil) == (eb == nil)
// @   ensures ea == nil ==> pa - pb == a - b
func SA1Pages(a, b uint32) (pa uint32, ea error, pb uint32, eb error) {
	pa, ea = sa1rom.BusAddressToPak(a)
	pb, eb = sa1rom.BusAddressToPak(b)
	return
}

// @ lemma SA1PakPages property C05
// @   requires p < 0x1000000 && q < 0x1000000 && p>>13 == q>>13
// @   ensures (ep == nil) == (eq == nil)
// @   ensures ep == nil ==> bp - bq == p - q
func SA1PakPages(p, q uint32) (bp uint32, ep error, bq uint32, eq error) {
	bp, ep = sa1rom.PakAddressToBus(p)
	bq, eq = sa1rom.PakAddressToBus(q)
	return
}

// @ lemma SA1PakToBusSound property C04 C05
// @   requires p < 0x1000000
// @   ensures e1 == nil ==> e2 == nil && b < 0x1000000
// @   ensures e1 == nil ==> mapspec.Class(q) == mapspec.Class(p)
// @   ensures e1 == nil ==> q&0x1FFF == p&0x1FFF && b&0x1FFF == p&0x1FFF
func SA1PakToBusSound(p uint32) (b uint32, e1 error, q uint32, e2 error) {
	b, e1 = sa1rom.PakAddressToBus(p)
	if e1 != nil {
		return
	}
	q, e2 = sa1rom.BusAddressToPak(b)
	return
}

// @ lemma SA1RoundTrip property C04
// @   requires a < 0x1000000
// @   ensures e1 == nil ==> e2 == nil && e3 == nil && q == p
func SA1RoundTrip(a uint32) (p uint32, e1 error, b uint32, e2 error, q uint32, e3 error) {
	p, e1 = sa1rom.BusAddressToPak(a)
	if e1 != nil {
		return
	}
	b, e2 = sa1rom.PakAddressToBus(p)
	if e2 != nil {
		return
	}
	q, e3 = sa1rom.BusAddressToPak(b)
	return
}
