package lemmas

import (
	"bytes"

	snes "github.com/alttpo/snes"
)

// ---- C09: the ROM-level functions use exactly the 80 bytes at HeaderOffset ----
// RomHeaderRoundTrip (read, write back, image unchanged) cannot tell WHICH 80 bytes were used: reading and
// writing the same wrong window also leaves the image unchanged. These two lemmas pin the window: ROM.ReadHeader
// yields the header that a direct parse of Contents[HeaderOffset : HeaderOffset+80] yields, and ROM.WriteHeader
// stores the serialisation of r.Header at HeaderOffset+$10.. (+$00.. for versions 2 and 3), byte for byte.

//@ lemma RomReadHeaderWindow property C09
//@   requires r.HeaderOffset+0x50 >= r.HeaderOffset && r.HeaderOffset+0x50 <= uint32(len(r.Contents)) && len(r.Contents) <= 0x1000000
//@   ensures isnil(e1) && isnil(e2)
//@   ensures r.Header == h2

func RomReadHeaderWindow(r *snes.ROM) (h2 snes.Header, e1, e2 error) {
	e1 = r.ReadHeader()
	e2 = h2.ReadHeader(bytes.NewReader(r.Contents[r.HeaderOffset : r.HeaderOffset+0x50]))
	return
}

//@ lemma RomWriteHeaderWindow property C09
//@   requires r.HeaderOffset+0x50 >= r.HeaderOffset && r.HeaderOffset+0x50 <= uint32(len(r.Contents)) && len(r.Contents) <= 0x1000000
//@   ensures isnil(e1) && isnil(e2) && len(ser) == 80
//@   ensures all(k, int, 0x10 <= k && k < 0x50 ==> r.Contents[int(r.HeaderOffset)+k] == ser[k])
//@   ensures ver >= 2 ==> all(k, int, 0 <= k && k < 0x10 ==> r.Contents[int(r.HeaderOffset)+k] == ser[k])
//@   ensures ver <= 1 ==> all(k, int, 0 <= k && k < 0x10 ==> r.Contents[int(r.HeaderOffset)+k] == old(r.Contents[int(r.HeaderOffset)+k]))
//@   ensures all(j, int, 0 <= j && j < len(r.Contents) && (j < int(r.HeaderOffset) || j >= int(r.HeaderOffset)+0x50) ==> r.Contents[j] == old(r.Contents[j]))

func RomWriteHeaderWindow(r *snes.ROM) (ser []byte, ver int, e1, e2 error) {
	buf := &bytes.Buffer{}
	e1 = r.Header.WriteHeader(buf)
	ser = buf.Bytes()
	ver = r.Header.HeaderVersion()
	e2 = r.WriteHeader()
	return
}
