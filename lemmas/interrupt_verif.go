//go:build verif

package lemmas

import (
	"github.com/alttpo/snes/emulator/cpu65c816"
	"github.com/alttpo/snes/emulator/cpualt"
)

// ---- C02, pending interrupts ----
// StepEquiv excludes a pending NMI / IRQ (the opcode executed after the interrupt entry is fetched from the
// vector's target, which the per-opcode harness cannot pin down). Step with a pending interrupt is the entry
// sequence nmi() / irq() followed by exactly the code StepEquiv covers, so the missing piece is that the two
// entry sequences, and the two request functions, agree from equal states: registers, flags, pending
// interrupt, cycle counters and every memory byte.

//@ lemma NmiEquiv property C02
//@   harness flatboth a=a b=b ram1=ram1 ram2=ram2 op=op
//@   ops 00
//@   nosafety
//@   ensures a.AllCycles == b.AllCycles
//@   ensures a.Cycles == b.Cycles
//@   ensures a.Stopped == b.Stopped
//@   ensures a.PRK == b.PRK
//@   ensures a.PPC == b.PPC
//@   ensures a.WDM == b.WDM
//@   ensures a.PC == b.PC
//@   ensures a.SP == b.SP
//@   ensures a.RA == b.RA
//@   ensures a.RX == b.RX
//@   ensures a.RY == b.RY
//@   ensures a.RAh == b.RAh
//@   ensures a.RAl == b.RAl
//@   ensures a.RXl == b.RXl
//@   ensures a.RYl == b.RYl
//@   ensures a.RDBR == b.RDBR
//@   ensures a.RD == b.RD
//@   ensures a.RK == b.RK
//@   ensures a.N == b.N
//@   ensures a.V == b.V
//@   ensures a.M == b.M
//@   ensures a.X == b.X
//@   ensures a.D == b.D
//@   ensures a.I == b.I
//@   ensures a.Z == b.Z
//@   ensures a.C == b.C
//@   ensures a.B == b.B
//@   ensures a.E == b.E
//@   ensures a.Interrupt == b.Interrupt
//@   ensures all(k, uint32, k < 0x1000000 ==> ram1[k] == ram2[k])

func NmiEquiv(a *cpu65c816.CPU, b *cpualt.CPU, ram1, ram2 *[1 << 24]byte, op byte) {
	a.VerifNMI()
	b.VerifNMI()
}

//@ lemma IrqEquiv property C02
//@   harness flatboth a=a b=b ram1=ram1 ram2=ram2 op=op
//@   ops 00
//@   nosafety
//@   ensures a.AllCycles == b.AllCycles
//@   ensures a.Cycles == b.Cycles
//@   ensures a.Stopped == b.Stopped
//@   ensures a.PRK == b.PRK
//@   ensures a.PPC == b.PPC
//@   ensures a.WDM == b.WDM
//@   ensures a.PC == b.PC
//@   ensures a.SP == b.SP
//@   ensures a.RA == b.RA
//@   ensures a.RX == b.RX
//@   ensures a.RY == b.RY
//@   ensures a.RAh == b.RAh
//@   ensures a.RAl == b.RAl
//@   ensures a.RXl == b.RXl
//@   ensures a.RYl == b.RYl
//@   ensures a.RDBR == b.RDBR
//@   ensures a.RD == b.RD
//@   ensures a.RK == b.RK
//@   ensures a.N == b.N
//@   ensures a.V == b.V
//@   ensures a.M == b.M
//@   ensures a.X == b.X
//@   ensures a.D == b.D
//@   ensures a.I == b.I
//@   ensures a.Z == b.Z
//@   ensures a.C == b.C
//@   ensures a.B == b.B
//@   ensures a.E == b.E
//@   ensures a.Interrupt == b.Interrupt
//@   ensures all(k, uint32, k < 0x1000000 ==> ram1[k] == ram2[k])

func IrqEquiv(a *cpu65c816.CPU, b *cpualt.CPU, ram1, ram2 *[1 << 24]byte, op byte) {
	a.VerifIRQ()
	b.VerifIRQ()
}

//@ lemma TriggerEquiv property C02
//@   harness flatboth a=a b=b ram1=ram1 ram2=ram2 op=op
//@   ops 00
//@   nosafety
//@   ensures a.Interrupt == b.Interrupt
//@   ensures a.I == b.I && a.PC == b.PC && a.SP == b.SP && a.Cycles == b.Cycles && a.AllCycles == b.AllCycles
//@   ensures all(k, uint32, k < 0x1000000 ==> ram1[k] == ram2[k])

func TriggerEquiv(a *cpu65c816.CPU, b *cpualt.CPU, ram1, ram2 *[1 << 24]byte, op byte, nmi bool) {
	if nmi {
		a.VerifTriggerNMI()
		b.VerifTriggerNMI()
	} else {
		a.TriggerIRQ()
		b.TriggerIRQ()
	}
}

// ---- C12 / C01, pending interrupts: the entry sequences keep the state valid ----
// The per-opcode Step lemmas assume a valid state (flag bytes in {0,1}) without a pending interrupt. A Step
// with a pending interrupt first runs an entry sequence; these lemmas show that what the remaining code of
// Step starts from is again such a state (flags in {0,1}; the stop condition untouched), so the per-opcode
// results (cycles >= 1, total advanced by the reported count, stop flag) carry over.

//@ lemma IntEntryValid65 property C12
//@   harness flat65 cpu=c ram=ram op=op
//@   ops 00
//@   nosafety
//@   ensures c.N <= 1 && c.V <= 1 && c.M <= 1 && c.X <= 1 && c.D <= 1 && c.I <= 1 && c.Z <= 1 && c.C <= 1 && c.B <= 1 && c.E <= 1
//@   ensures c.Stopped == old(c.Stopped) && c.AllCycles == old(c.AllCycles) && c.I == 1
//@   ensures c.M == old(c.M) && c.X == old(c.X) && c.E == old(c.E)

func IntEntryValid65(c *cpu65c816.CPU, ram *[1 << 24]byte, op byte, nmi bool) {
	if nmi {
		c.VerifNMI()
	} else {
		c.VerifIRQ()
	}
}

//@ lemma IntEntryValidAlt property C12
//@   harness flatalt cpu=c ram=ram op=op
//@   ops 00
//@   nosafety
//@   ensures c.N <= 1 && c.V <= 1 && c.M <= 1 && c.X <= 1 && c.D <= 1 && c.I <= 1 && c.Z <= 1 && c.C <= 1 && c.B <= 1 && c.E <= 1
//@   ensures c.Stopped == old(c.Stopped) && c.AllCycles == old(c.AllCycles) && c.I == 1
//@   ensures c.M == old(c.M) && c.X == old(c.X) && c.E == old(c.E)

func IntEntryValidAlt(c *cpualt.CPU, ram *[1 << 24]byte, op byte, nmi bool) {
	if nmi {
		c.VerifNMI()
	} else {
		c.VerifIRQ()
	}
}
