package lemmas

import "github.com/alttpo/snes/asm"

// C15: the listing invariant TILES (defined in /repo/asm/contracts_verif.go) is established by NewEmitter, kept by
// SetBase before anything is emitted, and preserved by Comment, Label and EmitBytes (the instruction methods are in
// tiles_gen.go). A base directive issued before a label, comment or instruction is listed before it.

// @ lemma Tiles_New property C15
// @   requires !isnil(target) && len(target) <= 0x1000000
// @   ensures TILES(ret1) && ret1.generateText && !ret1.baseSet && len(ret1.lines) == 0
func Tiles_New(target []byte) *asm.Emitter { return asm.NewEmitter(target, true) }

// @ lemma Tiles_SetBase property C15
// @   requires a.generateText && TILES(a) && a.n == 0 && len(a.lines) == 0
// @   ensures TILES(a) && a.baseSet && a.base == addr && a.address == addr && len(a.lines) == 0
func Tiles_SetBase(a *asm.Emitter, addr uint32) { a.SetBase(addr) }

// @ lemma Tiles_Comment property C15
// @   requires a.generateText && TILES(a)
// @   ensures TILES_A(a)
// @   ensures TILES_L(a)
// @   ensures TILES_C(a)
// @   ensures TILES_E(a)
// @   ensures len(a.lines) == old(len(a.lines))+1+ite(old(a.baseSet), 1, 0) && !a.baseSet
// @   ensures LT(a, len(a.lines)-1) == 8 && a.lines[len(a.lines)-1].address == a.address && a.lines[len(a.lines)-1].ins == s && a.n == old(a.n)
// @   ensures old(a.baseSet) ==> LT(a, len(a.lines)-2) == 6 && a.lines[len(a.lines)-2].address == a.address
// @   ensures all(k, int, 0 <= k && k < old(len(a.lines)) ==> a.lines[k] == old(a.lines[k]))
func Tiles_Comment(a *asm.Emitter, s string) { a.Comment(s) }

// @ lemma Tiles_Label property C15
// @   maypanic
// @   requires a.generateText && TILES(a)
// @   ensures TILES_A(a)
// @   ensures TILES_L(a)
// @   ensures TILES_C(a)
// @   ensures TILES_E(a)
// @   ensures len(a.lines) == old(len(a.lines))+1+ite(old(a.baseSet), 1, 0) && !a.baseSet
// @   ensures LT(a, len(a.lines)-1) == 9 && a.lines[len(a.lines)-1].address == a.address && a.lines[len(a.lines)-1].label == name && a.n == old(a.n)
// @   ensures old(a.baseSet) ==> LT(a, len(a.lines)-2) == 6 && a.lines[len(a.lines)-2].address == a.address
// @   ensures all(k, int, 0 <= k && k < old(len(a.lines)) ==> a.lines[k] == old(a.lines[k]))
func Tiles_Label(a *asm.Emitter, name string) { a.Label(name) }

// @ lemma Tiles_EmitBytesParts property C15
// @   modular
// @   requires a.generateText && TILES(a) && len(b) <= len(a.code)-a.n
// @   ensures TILES_A(a) && a.generateText && a.base == old(a.base) && a.n == old(a.n)+len(b) && a.address == old(a.address)+uint32(len(b))
// @   ensures len(a.lines) >= old(len(a.lines))+ite(old(a.baseSet), 1, 0) && (len(b) > 0 ==> len(a.lines) > old(len(a.lines))+ite(old(a.baseSet), 1, 0)) && (len(b) == 0 ==> len(a.lines) == old(len(a.lines))+ite(old(a.baseSet), 1, 0))
// @   ensures all(k, int, 0 <= k && k < old(len(a.lines)) ==> a.lines[k] == old(a.lines[k]))
// @   ensures all(k, int, 0 <= k && k < old(len(a.lines)) ==> LINEOK(a, k))
// @   ensures old(a.baseSet) ==> LINEOK(a, old(len(a.lines))) && BC(a, old(len(a.lines))) == 0 && a.lines[old(len(a.lines))].address == old(a.address)
// @   ensures all(k, int, old(len(a.lines))+ite(old(a.baseSet), 1, 0) <= k && k < len(a.lines) ==> LINEOK(a, k))
// @   ensures all(k, int, old(len(a.lines))+ite(old(a.baseSet), 1, 0) <= k && k < len(a.lines) ==> (k == old(len(a.lines))+ite(old(a.baseSet), 1, 0) ==> a.lines[k].address == old(a.address)) && (k > old(len(a.lines))+ite(old(a.baseSet), 1, 0) ==> a.lines[k].address == a.lines[k-1].address+16) && (k < len(a.lines)-1 ==> BC(a, k) == 16))
// @   ensures len(a.lines) > old(len(a.lines))+ite(old(a.baseSet), 1, 0) ==> a.lines[len(a.lines)-1].address+uint32(BC(a, len(a.lines)-1)) == a.address
// @   assigns a.n, a.code[:], a.address, a.lines, a.baseSet
func Tiles_EmitBytesParts(a *asm.Emitter, b []byte) { a.EmitBytes(b) }

// @ lemma Tiles_EmitBytes property C15
// @   requires a.generateText && TILES(a) && len(b) <= len(a.code)-a.n
// @   ensures TILES_A(a)
// @   ensures TILES_L(a)
// @   ensures TILES_C(a)
// @   ensures TILES_E(a)
func Tiles_EmitBytes(a *asm.Emitter, b []byte) { Tiles_EmitBytesParts(a, b) }

// Finalize patches operand bytes only: the listing invariant survives it ("before and after Finalize").
//
// @ lemma Tiles_Finalize property C15
// @   requires TILES(a) && WF_S8IN(a) && WF_U16IN(a) && WF_S8DIST(a) && WF_U16DIST(a) && WF_S8U16(a)
// @   ensures TILES_A(a)
// @   ensures TILES_L(a)
// @   ensures TILES_C(a)
// @   ensures TILES_E(a)
// @   ensures len(a.lines) == old(len(a.lines)) && all(k, int, 0 <= k && k < len(a.lines) ==> a.lines[k] == old(a.lines[k]))
func Tiles_Finalize(a *asm.Emitter) error { return a.Finalize() }
