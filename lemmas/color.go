package lemmas

import "github.com/alttpo/snes/color15"

// @ lemma ColorUnpackPack property C17
// @   ensures ret1 == c&0x7FFF
func ColorUnpackPack(c color15.Color) color15.Color {
	r, g, b := c.ToRGB()
	return color15.ToColor15(r, g, b)
}

// @ lemma ColorPackUnpack property C17
// @   ensures r2 == r&31 && g2 == g&31 && b2 == b&31
func ColorPackUnpack(r, g, b uint8) (r2, g2, b2 uint8) {
	return color15.ToColor15(r, g, b).ToRGB()
}

// @ lemma ColorMulDivIdentity property C17
// @   requires d != 0
// @   ensures ret1 == c&0x7FFF
func ColorMulDivIdentity(c color15.Color, d uint8) color15.Color { return c.MulDiv(d, d) }

// @ lemma ColorMulDivBounded property C17
// @   requires d != 0
// @   ensures r <= 31 && g <= 31 && b <= 31
func ColorMulDivBounded(c color15.Color, m, d uint8) (r, g, b uint8) { return c.MulDiv(m, d).ToRGB() }
