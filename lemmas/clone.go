package lemmas

import "github.com/alttpo/snes/asm"

// ---- C16: Clone + Append ----
// Cloning and appending straight back changes nothing observable (a lemma over the two proved contracts).
// That the clone, while it is being written to, cannot affect the original is Clone's freshness clause: its
// maps are new objects, its line list is empty and its buffer is the caller's target.

//@ lemma CloneAppendIdentity property C16
//@   requires a.n >= 0 && a.n <= len(a.code)
//@   ensures a.n == old(a.n) && a.address == old(a.address) && a.base == old(a.base) && a.baseSet == old(a.baseSet) && a.flagsTracker == old(a.flagsTracker)
//@   ensures len(a.lines) == old(len(a.lines)) && all(j, int, 0 <= j && j < len(a.lines) ==> a.lines[j] == old(a.lines[j]))
//@   ensures all(k, string, has(a.labels, k) == old(has(a.labels, k)) && (has(a.labels, k) ==> a.labels[k] == old(a.labels[k])))
//@   ensures all(k, string, has(a.danglingS8, k) == old(has(a.danglingS8, k)) && (has(a.danglingS8, k) ==> len(a.danglingS8[k]) == old(len(a.danglingS8[k]))))
//@   ensures all(k, string, all(j, int, has(a.danglingS8, k) && 0 <= j && j < len(a.danglingS8[k]) ==> a.danglingS8[k][j] == old(a.danglingS8[k][j])))
//@   ensures all(j, int, 0 <= j && j < len(a.code) ==> a.code[j] == old(a.code[j]))

func CloneAppendIdentity(a *asm.Emitter, target []byte) {
	c := a.Clone(target)
	a.Append(c)
}
