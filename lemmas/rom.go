package lemmas

import (
	"io"

	snes "github.com/alttpo/snes"
)

// ---- C10: data written through a bus writer is what a bus reader at the same address returns ----

//@ lemma RomWriteThenRead property C10
//@   requires addr < 0x1000000 && addr&0xFFFF >= 0x8000 && ((addr>>16)<<15)+0x8000 <= uint32(len(r.Contents)) && len(r.Contents) <= 0x1000000
//@   ensures isnil(err) ==> n == len(p) && isreader(rd) && aliases(readerslice(rd), r.Contents)
//@   ensures isnil(err) ==> all(j, uint32, j < uint32(len(p)) ==> readerslice(rd)[j] == p[j])
//@   ensures !isnil(err) ==> n == 0 && all(j, uint32, j < uint32(len(r.Contents)) ==> r.Contents[j] == old(r.Contents[j]))

func RomWriteThenRead(r *snes.ROM, addr uint32, p []byte) (n int, err error, rd io.Reader) {
	w := r.BusWriter(addr)
	n, err = w.Write(p)
	rd = r.BusReader(addr)
	return
}

//@ lemma RomUnmappedHalf property C10
//@   requires addr < 0x1000000 && addr&0xFFFF < 0x8000
//@   ensures n1 == 0 && e1 == io.ErrUnexpectedEOF && n2 == 0 && e2 == io.ErrUnexpectedEOF
//@   ensures all(j, uint32, j < uint32(len(r.Contents)) ==> r.Contents[j] == old(r.Contents[j]))

func RomUnmappedHalf(r *snes.ROM, addr uint32, p []byte) (n1 int, e1 error, n2 int, e2 error) {
	n1, e1 = r.BusWriter(addr).Write(p)
	n2, e2 = r.BusReader(addr).Read(p)
	return
}
