package lemmas

import "github.com/alttpo/snes/emulator"

// ---- C11: the emulated System's memory map is the LoROM map of the mapper package ----
// A fresh System is given arbitrary ROM / WRAM / SRAM contents; CreateEmulator's loops have constant bounds
// and are unrolled completely; each of its ~400 Attach calls goes through Attach's contract (proved under
// C13), whose range-update postcondition is bound as a lambda, so the final routing table stays quantifier-free.
// The value clauses hold for every address the MAPPER assigns, whenever the read returns at all (maypanic: an
// address the console leaves unmapped panics in EaRead); they are deliberately not conditioned on the routing
// table, so a read that reaches some other storage by a detour is still compared with the mapper's cell.

//@ lemma EmuRead property C11
//@   maypanic
//@   split uint8(a>>16) 0..255
//@   requires a < 0x1000000
//@   ensures isnil(err)
//@   ensures isdyn(s.Bus.segment[a>>4], "emulator/memory.RAM") ==> mapspec.LoROMOk(a)
//@   ensures mapspec.LoROMOk(a) && mapspec.Class(mapspec.LoROMPak(a)) == mapspec.ROM ==> v == rom[mapspec.LoROMPak(a)]
//@   ensures mapspec.LoROMOk(a) && mapspec.Class(mapspec.LoROMPak(a)) == mapspec.SRAM ==> v == sram[mapspec.LoROMPak(a)-0xE00000]
//@   ensures mapspec.LoROMOk(a) && mapspec.Class(mapspec.LoROMPak(a)) == mapspec.WRAM ==> v == wram[mapspec.LoROMPak(a)-0xF50000]

func EmuRead(rom *[0x1000000]byte, wram *[0x20000]byte, sram *[0x10000]byte, a uint32) (v byte, err error) {
	s := &emulator.System{}
	s.ROM, s.WRAM, s.SRAM = *rom, *wram, *sram
	err = s.CreateEmulator()
	v = s.Bus.EaRead(a)
	return
}

// The write half of C11 is the composition of three proved facts: EaWrite and EaRead route an address to the
// same segment with the unmodified address (C13 contracts of bus.EaRead / bus.EaWrite); RAM.Write(a, v) changes
// exactly data[a-offset], the cell RAM.Read(a) returns (contracts of memory.RAM below, in
// /repo/emulator/memory/contracts_verif.go); and EmuRead identifies that cell with the mapper's Pak address.
// A direct lemma over the merged 264-way heap (tried) needs > 6 min of solver time and is not registered.
