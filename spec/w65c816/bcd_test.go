package w65c816

import "testing"

// the digit-wise BCD helpers of the model against integer arithmetic on the decoded numbers
func TestBCD(t *testing.T) {
	for a := 0; a < 100; a++ {
		for b := 0; b < 100; b++ {
			for c := 0; c < 2; c++ {
				pa, pb := uint32(a/10<<4|a%10), uint32(b/10<<4|b%10)
				r, co := bcdAdd(pa, pb, uint32(c), 2)
				s := a + b + c
				if int(r>>4*10+r&15) != s%100 || int(co) != s/100 {
					t.Fatalf("add %d %d %d -> %x %d", a, b, c, r, co)
				}
				r, co = bcdSub(pa, pb, uint32(c), 2)
				d := a - b - (1 - c)
				bo := 1
				if d < 0 {
					d += 100
					bo = 0
				}
				if int(r>>4*10+r&15) != d || int(co) != bo {
					t.Fatalf("sub %d %d %d -> %x %d", a, b, c, r, co)
				}
			}
		}
	}
	if r, co := bcdAdd(0x9999, 0x0001, 0, 4); r != 0 || co != 1 {
		t.Fatal(r, co)
	}
	if r, co := bcdSub(0x1000, 0x0001, 1, 4); r != 0x0999 || co != 1 {
		t.Fatal(r, co)
	}
}
