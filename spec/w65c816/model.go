// Package w65c816 is an independent reference model of ONE native-mode (E=0)
// instruction of the WDC 65C816, written from the WDC programming model.
// Pure Go, no loops on the execution path; used as a spec function.
package w65c816

type State struct {
	A, X, Y, S, D, PC uint16
	DBR, K, P         byte
	E                 byte
	// DecUndef is an OUTPUT of Step: the instruction was a decimal-mode ADC / SBC with a digit above 9 in the
	// accumulator or the operand, for which the programming model defines neither the result nor N V Z C.
	DecUndef bool
}

type Mem = *[1 << 24]byte

const (
	fC = 0x01
	fZ = 0x02
	fI = 0x04
	fD = 0x08
	fX = 0x10
	fM = 0x20
	fV = 0x40
	fN = 0x80
)

// instructions
const (
	iADC = iota
	iAND
	iASL
	iBCC
	iBCS
	iBEQ
	iBIT
	iBMI
	iBNE
	iBPL
	iBRA
	iBRK
	iBRL
	iBVC
	iBVS
	iCLC
	iCLD
	iCLI
	iCLV
	iCMP
	iCOP
	iCPX
	iCPY
	iDEC
	iDEX
	iDEY
	iEOR
	iINC
	iINX
	iINY
	iJML
	iJMP
	iJSL
	iJSR
	iLDA
	iLDX
	iLDY
	iLSR
	iMVN
	iMVP
	iNOP
	iORA
	iPEA
	iPEI
	iPER
	iPHA
	iPHB
	iPHD
	iPHK
	iPHP
	iPHX
	iPHY
	iPLA
	iPLB
	iPLD
	iPLP
	iPLX
	iPLY
	iREP
	iROL
	iROR
	iRTI
	iRTL
	iRTS
	iSBC
	iSEC
	iSED
	iSEI
	iSEP
	iSTA
	iSTP
	iSTX
	iSTY
	iSTZ
	iTAX
	iTAY
	iTCD
	iTCS
	iTDC
	iTRB
	iTSB
	iTSC
	iTSX
	iTXA
	iTXS
	iTXY
	iTYA
	iTYX
	iWAI
	iWDM
	iXBA
	iXCE
)

// addressing modes
const (
	mIMP = iota
	mACC
	mIMM8  // 8-bit immediate (REP, SEP, COP, WDM, BRK signature)
	mIMMM  // immediate, width by m
	mIMMX  // immediate, width by x
	mIMM16 // PEA
	mABS
	mABSX
	mABSY
	mLONG
	mLONGX
	mDP
	mDPX
	mDPY
	mIDP   // (dp)
	mIDPX  // (dp,X)
	mIDPY  // (dp),Y
	mILDP  // [dp]
	mILDPY // [dp],Y
	mSR
	mISRY
	mREL8
	mREL16
	mABSJ  // JMP/JSR abs
	mIABS  // JMP (abs)
	mIABSX // JMP/JSR (abs,X)
	mILABS // JML [abs]
	mLONGJ // JML/JSL long
	mBLK
)

type Op struct{ Ins, Mode uint8 }

var Tab = [256]Op{
	{iBRK, mIMM8}, {iORA, mIDPX}, {iCOP, mIMM8}, {iORA, mSR}, {iTSB, mDP}, {iORA, mDP}, {iASL, mDP}, {iORA, mILDP}, {iPHP, mIMP}, {iORA, mIMMM}, {iASL, mACC}, {iPHD, mIMP}, {iTSB, mABS}, {iORA, mABS}, {iASL, mABS}, {iORA, mLONG},
	{iBPL, mREL8}, {iORA, mIDPY}, {iORA, mIDP}, {iORA, mISRY}, {iTRB, mDP}, {iORA, mDPX}, {iASL, mDPX}, {iORA, mILDPY}, {iCLC, mIMP}, {iORA, mABSY}, {iINC, mACC}, {iTCS, mIMP}, {iTRB, mABS}, {iORA, mABSX}, {iASL, mABSX}, {iORA, mLONGX},
	{iJSR, mABSJ}, {iAND, mIDPX}, {iJSL, mLONGJ}, {iAND, mSR}, {iBIT, mDP}, {iAND, mDP}, {iROL, mDP}, {iAND, mILDP}, {iPLP, mIMP}, {iAND, mIMMM}, {iROL, mACC}, {iPLD, mIMP}, {iBIT, mABS}, {iAND, mABS}, {iROL, mABS}, {iAND, mLONG},
	{iBMI, mREL8}, {iAND, mIDPY}, {iAND, mIDP}, {iAND, mISRY}, {iBIT, mDPX}, {iAND, mDPX}, {iROL, mDPX}, {iAND, mILDPY}, {iSEC, mIMP}, {iAND, mABSY}, {iDEC, mACC}, {iTSC, mIMP}, {iBIT, mABSX}, {iAND, mABSX}, {iROL, mABSX}, {iAND, mLONGX},
	{iRTI, mIMP}, {iEOR, mIDPX}, {iWDM, mIMM8}, {iEOR, mSR}, {iMVP, mBLK}, {iEOR, mDP}, {iLSR, mDP}, {iEOR, mILDP}, {iPHA, mIMP}, {iEOR, mIMMM}, {iLSR, mACC}, {iPHK, mIMP}, {iJMP, mABSJ}, {iEOR, mABS}, {iLSR, mABS}, {iEOR, mLONG},
	{iBVC, mREL8}, {iEOR, mIDPY}, {iEOR, mIDP}, {iEOR, mISRY}, {iMVN, mBLK}, {iEOR, mDPX}, {iLSR, mDPX}, {iEOR, mILDPY}, {iCLI, mIMP}, {iEOR, mABSY}, {iPHY, mIMP}, {iTCD, mIMP}, {iJML, mLONGJ}, {iEOR, mABSX}, {iLSR, mABSX}, {iEOR, mLONGX},
	{iRTS, mIMP}, {iADC, mIDPX}, {iPER, mREL16}, {iADC, mSR}, {iSTZ, mDP}, {iADC, mDP}, {iROR, mDP}, {iADC, mILDP}, {iPLA, mIMP}, {iADC, mIMMM}, {iROR, mACC}, {iRTL, mIMP}, {iJMP, mIABS}, {iADC, mABS}, {iROR, mABS}, {iADC, mLONG},
	{iBVS, mREL8}, {iADC, mIDPY}, {iADC, mIDP}, {iADC, mISRY}, {iSTZ, mDPX}, {iADC, mDPX}, {iROR, mDPX}, {iADC, mILDPY}, {iSEI, mIMP}, {iADC, mABSY}, {iPLY, mIMP}, {iTDC, mIMP}, {iJMP, mIABSX}, {iADC, mABSX}, {iROR, mABSX}, {iADC, mLONGX},
	{iBRA, mREL8}, {iSTA, mIDPX}, {iBRL, mREL16}, {iSTA, mSR}, {iSTY, mDP}, {iSTA, mDP}, {iSTX, mDP}, {iSTA, mILDP}, {iDEY, mIMP}, {iBIT, mIMMM}, {iTXA, mIMP}, {iPHB, mIMP}, {iSTY, mABS}, {iSTA, mABS}, {iSTX, mABS}, {iSTA, mLONG},
	{iBCC, mREL8}, {iSTA, mIDPY}, {iSTA, mIDP}, {iSTA, mISRY}, {iSTY, mDPX}, {iSTA, mDPX}, {iSTX, mDPY}, {iSTA, mILDPY}, {iTYA, mIMP}, {iSTA, mABSY}, {iTXS, mIMP}, {iTXY, mIMP}, {iSTZ, mABS}, {iSTA, mABSX}, {iSTZ, mABSX}, {iSTA, mLONGX},
	{iLDY, mIMMX}, {iLDA, mIDPX}, {iLDX, mIMMX}, {iLDA, mSR}, {iLDY, mDP}, {iLDA, mDP}, {iLDX, mDP}, {iLDA, mILDP}, {iTAY, mIMP}, {iLDA, mIMMM}, {iTAX, mIMP}, {iPLB, mIMP}, {iLDY, mABS}, {iLDA, mABS}, {iLDX, mABS}, {iLDA, mLONG},
	{iBCS, mREL8}, {iLDA, mIDPY}, {iLDA, mIDP}, {iLDA, mISRY}, {iLDY, mDPX}, {iLDA, mDPX}, {iLDX, mDPY}, {iLDA, mILDPY}, {iCLV, mIMP}, {iLDA, mABSY}, {iTSX, mIMP}, {iTYX, mIMP}, {iLDY, mABSX}, {iLDA, mABSX}, {iLDX, mABSY}, {iLDA, mLONGX},
	{iCPY, mIMMX}, {iCMP, mIDPX}, {iREP, mIMM8}, {iCMP, mSR}, {iCPY, mDP}, {iCMP, mDP}, {iDEC, mDP}, {iCMP, mILDP}, {iINY, mIMP}, {iCMP, mIMMM}, {iDEX, mIMP}, {iWAI, mIMP}, {iCPY, mABS}, {iCMP, mABS}, {iDEC, mABS}, {iCMP, mLONG},
	{iBNE, mREL8}, {iCMP, mIDPY}, {iCMP, mIDP}, {iCMP, mISRY}, {iPEI, mDP}, {iCMP, mDPX}, {iDEC, mDPX}, {iCMP, mILDPY}, {iCLD, mIMP}, {iCMP, mABSY}, {iPHX, mIMP}, {iSTP, mIMP}, {iJML, mILABS}, {iCMP, mABSX}, {iDEC, mABSX}, {iCMP, mLONGX},
	{iCPX, mIMMX}, {iSBC, mIDPX}, {iSEP, mIMM8}, {iSBC, mSR}, {iCPX, mDP}, {iSBC, mDP}, {iINC, mDP}, {iSBC, mILDP}, {iINX, mIMP}, {iSBC, mIMMM}, {iNOP, mIMP}, {iXBA, mIMP}, {iCPX, mABS}, {iSBC, mABS}, {iINC, mABS}, {iSBC, mLONG},
	{iBEQ, mREL8}, {iSBC, mIDPY}, {iSBC, mIDP}, {iSBC, mISRY}, {iPEA, mIMM16}, {iSBC, mDPX}, {iINC, mDPX}, {iSBC, mILDPY}, {iSED, mIMP}, {iSBC, mABSY}, {iPLX, mIMP}, {iXCE, mIMP}, {iJSR, mIABSX}, {iSBC, mABSX}, {iINC, mABSX}, {iSBC, mLONGX},
}

// ---- memory helpers ----
func rd(m Mem, a uint32) byte          { return m[a&0xFFFFFF] }
func wr(m Mem, a uint32, v byte)       { m[a&0xFFFFFF] = v }
func bk(b byte, o uint16) uint32       { return uint32(b)<<16 | uint32(o) }
func rd16(m Mem, lo, hi uint32) uint16 { return uint16(rd(m, lo)) | uint16(rd(m, hi))<<8 }

// Loc is the location of an operand: address of its low and of its high byte
type Loc struct{ lo, hi uint32 }

func linear(a uint32) Loc         { return Loc{a & 0xFFFFFF, (a + 1) & 0xFFFFFF} } // carries across banks, wraps at 2^24
func inbank(b byte, o uint16) Loc { return Loc{bk(b, o), bk(b, o+1)} }             // wraps inside the bank

func (s *State) m8() bool { return s.P&fM != 0 }
func (s *State) x8() bool { return s.P&fX != 0 }
func (s *State) xr() uint16 {
	if s.x8() {
		return s.X & 0xFF
	}
	return s.X
}
func (s *State) yr() uint16 {
	if s.x8() {
		return s.Y & 0xFF
	}
	return s.Y
}
func f8(s *State, m Mem, i uint16) byte { return rd(m, bk(s.K, s.PC+i)) }
func f16(s *State, m Mem, i uint16) uint16 {
	return uint16(f8(s, m, i)) | uint16(f8(s, m, i+1))<<8
}
func f24(s *State, m Mem, i uint16) uint32 {
	return uint32(f8(s, m, i)) | uint32(f8(s, m, i+1))<<8 | uint32(f8(s, m, i+2))<<16
}
func zp16(m Mem, o uint16) uint16 { return uint16(rd(m, uint32(o))) | uint16(rd(m, uint32(o+1)))<<8 }
func zp24(m Mem, o uint16) uint32 {
	return uint32(rd(m, uint32(o))) | uint32(rd(m, uint32(o+1)))<<8 | uint32(rd(m, uint32(o+2)))<<16
}

func push8(s *State, m Mem, v byte) { wr(m, uint32(s.S), v); s.S-- }
func pull8(s *State, m Mem) byte    { s.S++; return rd(m, uint32(s.S)) }
func push16(s *State, m Mem, v uint16) {
	push8(s, m, byte(v>>8))
	push8(s, m, byte(v))
}
func pull16(s *State, m Mem) uint16 {
	l := uint16(pull8(s, m))
	h := uint16(pull8(s, m))
	return h<<8 | l
}

func setP(s *State, v byte) {
	s.P = v
	if v&fX != 0 {
		s.X &= 0xFF
		s.Y &= 0xFF
	}
}
func flag(s *State, f byte, on bool) {
	if on {
		s.P |= f
	} else {
		s.P &^= f
	}
}
func nz8(s *State, v byte)    { flag(s, fN, v&0x80 != 0); flag(s, fZ, v == 0) }
func nz16(s *State, v uint16) { flag(s, fN, v&0x8000 != 0); flag(s, fZ, v == 0) }

// length of the instruction in bytes
func Length(op byte, p byte) uint16 {
	switch Tab[op].Mode {
	case mIMP, mACC:
		return 1
	case mIMM8, mDP, mDPX, mDPY, mIDP, mIDPX, mIDPY, mILDP, mILDPY, mSR, mISRY, mREL8:
		return 2
	case mIMMM:
		if p&fM != 0 {
			return 2
		}
		return 3
	case mIMMX:
		if p&fX != 0 {
			return 2
		}
		return 3
	case mLONG, mLONGX, mLONGJ:
		return 4
	}
	return 3
}

// operand location for data-accessing modes
func loc(s *State, m Mem, mode uint8) Loc {
	switch mode {
	case mIMM8, mIMMM, mIMMX, mIMM16:
		return inbank(s.K, s.PC+1)
	case mABS:
		return linear(bk(s.DBR, f16(s, m, 1)))
	case mABSX:
		return linear(bk(s.DBR, f16(s, m, 1)) + uint32(s.xr()))
	case mABSY:
		return linear(bk(s.DBR, f16(s, m, 1)) + uint32(s.yr()))
	case mLONG:
		return linear(f24(s, m, 1))
	case mLONGX:
		return linear(f24(s, m, 1) + uint32(s.xr()))
	case mDP:
		return inbank(0, s.D+uint16(f8(s, m, 1)))
	case mDPX:
		return inbank(0, s.D+uint16(f8(s, m, 1))+s.xr())
	case mDPY:
		return inbank(0, s.D+uint16(f8(s, m, 1))+s.yr())
	case mIDP:
		return linear(bk(s.DBR, zp16(m, s.D+uint16(f8(s, m, 1)))))
	case mIDPX:
		return linear(bk(s.DBR, zp16(m, s.D+uint16(f8(s, m, 1))+s.xr())))
	case mIDPY:
		return linear(bk(s.DBR, zp16(m, s.D+uint16(f8(s, m, 1)))) + uint32(s.yr()))
	case mILDP:
		return linear(zp24(m, s.D+uint16(f8(s, m, 1))))
	case mILDPY:
		return linear(zp24(m, s.D+uint16(f8(s, m, 1))) + uint32(s.yr()))
	case mSR:
		return inbank(0, s.S+uint16(f8(s, m, 1)))
	case mISRY:
		return linear(bk(s.DBR, zp16(m, s.S+uint16(f8(s, m, 1)))) + uint32(s.yr()))
	}
	return Loc{}
}

func branch(s *State, m Mem, taken bool) {
	if taken {
		off := uint16(int16(int8(f8(s, m, 1))))
		s.PC = s.PC + 2 + off
	} else {
		s.PC += 2
	}
}

// Step executes the instruction whose opcode byte is op (the caller guarantees m[K:PC]==op). Requires E==0.
func Step(s *State, m Mem, op byte) {
	e := Tab[op]
	n := Length(op, s.P)
	l := loc(s, m, e.Mode)
	acc := e.Mode == mACC
	switch e.Ins {
	// ---- loads / stores
	case iLDA:
		if s.m8() {
			v := rd(m, l.lo)
			s.A = s.A&0xFF00 | uint16(v)
			nz8(s, v)
		} else {
			s.A = rd16(m, l.lo, l.hi)
			nz16(s, s.A)
		}
		s.PC += n
	case iLDX:
		if s.x8() {
			v := rd(m, l.lo)
			s.X = uint16(v)
			nz8(s, v)
		} else {
			s.X = rd16(m, l.lo, l.hi)
			nz16(s, s.X)
		}
		s.PC += n
	case iLDY:
		if s.x8() {
			v := rd(m, l.lo)
			s.Y = uint16(v)
			nz8(s, v)
		} else {
			s.Y = rd16(m, l.lo, l.hi)
			nz16(s, s.Y)
		}
		s.PC += n
	case iSTA:
		wr(m, l.lo, byte(s.A))
		if !s.m8() {
			wr(m, l.hi, byte(s.A>>8))
		}
		s.PC += n
	case iSTX:
		wr(m, l.lo, byte(s.xr()))
		if !s.x8() {
			wr(m, l.hi, byte(s.X>>8))
		}
		s.PC += n
	case iSTY:
		wr(m, l.lo, byte(s.yr()))
		if !s.x8() {
			wr(m, l.hi, byte(s.Y>>8))
		}
		s.PC += n
	case iSTZ:
		wr(m, l.lo, 0)
		if !s.m8() {
			wr(m, l.hi, 0)
		}
		s.PC += n
	// ---- logic
	case iORA, iAND, iEOR:
		if s.m8() {
			v := rd(m, l.lo)
			a := byte(s.A)
			switch e.Ins {
			case iORA:
				a |= v
			case iAND:
				a &= v
			default:
				a ^= v
			}
			s.A = s.A&0xFF00 | uint16(a)
			nz8(s, a)
		} else {
			v := rd16(m, l.lo, l.hi)
			switch e.Ins {
			case iORA:
				s.A |= v
			case iAND:
				s.A &= v
			default:
				s.A ^= v
			}
			nz16(s, s.A)
		}
		s.PC += n
	case iBIT:
		if s.m8() {
			v := rd(m, l.lo)
			flag(s, fZ, byte(s.A)&v == 0)
			if e.Mode != mIMMM {
				flag(s, fN, v&0x80 != 0)
				flag(s, fV, v&0x40 != 0)
			}
		} else {
			v := rd16(m, l.lo, l.hi)
			flag(s, fZ, s.A&v == 0)
			if e.Mode != mIMMM {
				flag(s, fN, v&0x8000 != 0)
				flag(s, fV, v&0x4000 != 0)
			}
		}
		s.PC += n
	case iTSB, iTRB:
		if s.m8() {
			v := rd(m, l.lo)
			a := byte(s.A)
			flag(s, fZ, v&a == 0)
			if e.Ins == iTSB {
				wr(m, l.lo, v|a)
			} else {
				wr(m, l.lo, v&^a)
			}
		} else {
			v := rd16(m, l.lo, l.hi)
			flag(s, fZ, v&s.A == 0)
			var r uint16
			if e.Ins == iTSB {
				r = v | s.A
			} else {
				r = v &^ s.A
			}
			wr(m, l.lo, byte(r))
			wr(m, l.hi, byte(r>>8))
		}
		s.PC += n
	// ---- arithmetic
	case iADC, iSBC:
		c := uint32(s.P & fC)
		if s.P&fD != 0 {
			// decimal mode: the accumulator and the operand are packed BCD numbers of 2 (m=1) or 4 digits; the
			// result is their decimal sum / difference with carry / borrow (C = 1: no borrow), N and Z describe
			// the result. V is left as the binary rule gives it: the model does not define it in decimal mode
			// and the lemmas do not compare it.
			var a, d uint32
			digits := 4
			if s.m8() {
				a, d, digits = uint32(s.A&0xFF), uint32(rd(m, l.lo)), 2
			} else {
				a, d = uint32(s.A), uint32(rd16(m, l.lo, l.hi))
			}
			s.DecUndef = !bcdValid(a, digits) || !bcdValid(d, digits)
			var r uint32
			if e.Ins == iADC {
				r, c = bcdAdd(a, d, c, digits)
			} else {
				r, c = bcdSub(a, d, c, digits)
			}
			flag(s, fC, c != 0)
			if s.m8() {
				s.A = s.A&0xFF00 | uint16(r&0xFF)
				nz8(s, byte(r))
			} else {
				s.A = uint16(r)
				nz16(s, s.A)
			}
			s.PC += n
			break
		}
		if s.m8() {
			d := uint32(rd(m, l.lo))
			if e.Ins == iSBC {
				d ^= 0xFF
			}
			a := uint32(s.A & 0xFF)
			r := a + d + c
			flag(s, fV, (^(a^d))&(a^r)&0x80 != 0)
			flag(s, fC, r > 0xFF)
			s.A = s.A&0xFF00 | uint16(r&0xFF)
			nz8(s, byte(r))
		} else {
			d := uint32(rd16(m, l.lo, l.hi))
			if e.Ins == iSBC {
				d ^= 0xFFFF
			}
			a := uint32(s.A)
			r := a + d + c
			flag(s, fV, (^(a^d))&(a^r)&0x8000 != 0)
			flag(s, fC, r > 0xFFFF)
			s.A = uint16(r)
			nz16(s, s.A)
		}
		s.PC += n
	case iCMP:
		if s.m8() {
			v := rd(m, l.lo)
			a := byte(s.A)
			flag(s, fC, a >= v)
			nz8(s, a-v)
		} else {
			v := rd16(m, l.lo, l.hi)
			flag(s, fC, s.A >= v)
			nz16(s, s.A-v)
		}
		s.PC += n
	case iCPX, iCPY:
		r := s.xr()
		if e.Ins == iCPY {
			r = s.yr()
		}
		if s.x8() {
			v := rd(m, l.lo)
			flag(s, fC, byte(r) >= v)
			nz8(s, byte(r)-v)
		} else {
			v := rd16(m, l.lo, l.hi)
			flag(s, fC, r >= v)
			nz16(s, r-v)
		}
		s.PC += n
	// ---- read-modify-write
	case iASL, iLSR, iROL, iROR, iINC, iDEC:
		cin := uint16(s.P & fC)
		if s.m8() {
			var v byte
			if acc {
				v = byte(s.A)
			} else {
				v = rd(m, l.lo)
			}
			var r byte
			switch e.Ins {
			case iASL:
				flag(s, fC, v&0x80 != 0)
				r = v << 1
			case iLSR:
				flag(s, fC, v&1 != 0)
				r = v >> 1
			case iROL:
				flag(s, fC, v&0x80 != 0)
				r = v<<1 | byte(cin)
			case iROR:
				flag(s, fC, v&1 != 0)
				r = v>>1 | byte(cin)<<7
			case iINC:
				r = v + 1
			default:
				r = v - 1
			}
			nz8(s, r)
			if acc {
				s.A = s.A&0xFF00 | uint16(r)
			} else {
				wr(m, l.lo, r)
			}
		} else {
			var v uint16
			if acc {
				v = s.A
			} else {
				v = rd16(m, l.lo, l.hi)
			}
			var r uint16
			switch e.Ins {
			case iASL:
				flag(s, fC, v&0x8000 != 0)
				r = v << 1
			case iLSR:
				flag(s, fC, v&1 != 0)
				r = v >> 1
			case iROL:
				flag(s, fC, v&0x8000 != 0)
				r = v<<1 | cin
			case iROR:
				flag(s, fC, v&1 != 0)
				r = v>>1 | cin<<15
			case iINC:
				r = v + 1
			default:
				r = v - 1
			}
			nz16(s, r)
			if acc {
				s.A = r
			} else {
				wr(m, l.lo, byte(r))
				wr(m, l.hi, byte(r>>8))
			}
		}
		s.PC += n
	case iINX, iDEX, iINY, iDEY:
		d := uint16(1)
		if e.Ins == iDEX || e.Ins == iDEY {
			d = 0xFFFF
		}
		if e.Ins == iINX || e.Ins == iDEX {
			if s.x8() {
				s.X = (s.X + d) & 0xFF
				nz8(s, byte(s.X))
			} else {
				s.X += d
				nz16(s, s.X)
			}
		} else {
			if s.x8() {
				s.Y = (s.Y + d) & 0xFF
				nz8(s, byte(s.Y))
			} else {
				s.Y += d
				nz16(s, s.Y)
			}
		}
		s.PC += n
	// ---- flags
	case iCLC:
		s.P &^= fC
		s.PC += n
	case iSEC:
		s.P |= fC
		s.PC += n
	case iCLD:
		s.P &^= fD
		s.PC += n
	case iSED:
		s.P |= fD
		s.PC += n
	case iCLI:
		s.P &^= fI
		s.PC += n
	case iSEI:
		s.P |= fI
		s.PC += n
	case iCLV:
		s.P &^= fV
		s.PC += n
	case iREP:
		setP(s, s.P&^rd(m, l.lo))
		s.PC += n
	case iSEP:
		setP(s, s.P|rd(m, l.lo))
		s.PC += n
	case iXCE:
		// native mode: E=0. carry set -> enter emulation
		if s.P&fC != 0 {
			s.P &^= fC // C <- old E (0)
			s.E = 1
			setP(s, s.P|fM|fX)
			s.S = 0x0100 | s.S&0xFF
		}
		s.PC += n
	// ---- branches and jumps
	case iBCC:
		branch(s, m, s.P&fC == 0)
	case iBCS:
		branch(s, m, s.P&fC != 0)
	case iBEQ:
		branch(s, m, s.P&fZ != 0)
	case iBNE:
		branch(s, m, s.P&fZ == 0)
	case iBMI:
		branch(s, m, s.P&fN != 0)
	case iBPL:
		branch(s, m, s.P&fN == 0)
	case iBVC:
		branch(s, m, s.P&fV == 0)
	case iBVS:
		branch(s, m, s.P&fV != 0)
	case iBRA:
		branch(s, m, true)
	case iBRL:
		s.PC = s.PC + 3 + f16(s, m, 1)
	case iJMP:
		switch e.Mode {
		case mABSJ:
			s.PC = f16(s, m, 1)
		case mIABS:
			s.PC = zp16(m, f16(s, m, 1))
		default: // (abs,X)
			p := f16(s, m, 1) + s.xr()
			s.PC = uint16(rd(m, bk(s.K, p))) | uint16(rd(m, bk(s.K, p+1)))<<8
		}
	case iJML:
		if e.Mode == mLONGJ {
			t := f24(s, m, 1)
			s.PC = uint16(t)
			s.K = byte(t >> 16)
		} else {
			t := zp24(m, f16(s, m, 1))
			s.PC = uint16(t)
			s.K = byte(t >> 16)
		}
	case iJSR:
		if e.Mode == mABSJ {
			t := f16(s, m, 1)
			push16(s, m, s.PC+2)
			s.PC = t
		} else {
			p := f16(s, m, 1) + s.xr()
			push16(s, m, s.PC+2)
			s.PC = uint16(rd(m, bk(s.K, p))) | uint16(rd(m, bk(s.K, p+1)))<<8
		}
	case iJSL:
		t := f24(s, m, 1)
		push8(s, m, s.K)
		push16(s, m, s.PC+3)
		s.PC = uint16(t)
		s.K = byte(t >> 16)
	case iRTS:
		s.PC = pull16(s, m) + 1
	case iRTL:
		s.PC = pull16(s, m) + 1
		s.K = pull8(s, m)
	case iRTI:
		setP(s, pull8(s, m))
		s.PC = pull16(s, m)
		s.K = pull8(s, m)
	case iBRK, iCOP:
		push8(s, m, s.K)
		push16(s, m, s.PC+2)
		push8(s, m, s.P)
		s.P |= fI
		s.P &^= fD
		s.K = 0
		if e.Ins == iBRK {
			s.PC = zp16(m, 0xFFE6)
		} else {
			s.PC = zp16(m, 0xFFE4)
		}
	// ---- stack
	case iPHA:
		if s.m8() {
			push8(s, m, byte(s.A))
		} else {
			push16(s, m, s.A)
		}
		s.PC += n
	case iPHX:
		if s.x8() {
			push8(s, m, byte(s.X))
		} else {
			push16(s, m, s.X)
		}
		s.PC += n
	case iPHY:
		if s.x8() {
			push8(s, m, byte(s.Y))
		} else {
			push16(s, m, s.Y)
		}
		s.PC += n
	case iPHP:
		push8(s, m, s.P)
		s.PC += n
	case iPHB:
		push8(s, m, s.DBR)
		s.PC += n
	case iPHK:
		push8(s, m, s.K)
		s.PC += n
	case iPHD:
		push16(s, m, s.D)
		s.PC += n
	case iPLA:
		if s.m8() {
			v := pull8(s, m)
			s.A = s.A&0xFF00 | uint16(v)
			nz8(s, v)
		} else {
			s.A = pull16(s, m)
			nz16(s, s.A)
		}
		s.PC += n
	case iPLX:
		if s.x8() {
			v := pull8(s, m)
			s.X = uint16(v)
			nz8(s, v)
		} else {
			s.X = pull16(s, m)
			nz16(s, s.X)
		}
		s.PC += n
	case iPLY:
		if s.x8() {
			v := pull8(s, m)
			s.Y = uint16(v)
			nz8(s, v)
		} else {
			s.Y = pull16(s, m)
			nz16(s, s.Y)
		}
		s.PC += n
	case iPLP:
		setP(s, pull8(s, m))
		s.PC += n
	case iPLB:
		s.DBR = pull8(s, m)
		nz8(s, s.DBR)
		s.PC += n
	case iPLD:
		s.D = pull16(s, m)
		nz16(s, s.D)
		s.PC += n
	case iPEA:
		push16(s, m, f16(s, m, 1))
		s.PC += n
	case iPEI:
		push16(s, m, zp16(m, s.D+uint16(f8(s, m, 1))))
		s.PC += n
	case iPER:
		push16(s, m, s.PC+3+f16(s, m, 1))
		s.PC += n
	// ---- transfers
	case iTAX, iTAY:
		v := s.A
		if s.x8() {
			v &= 0xFF
			nz8(s, byte(v))
		} else {
			nz16(s, v)
		}
		if e.Ins == iTAX {
			s.X = v
		} else {
			s.Y = v
		}
		s.PC += n
	case iTXA, iTYA:
		v := s.xr()
		if e.Ins == iTYA {
			v = s.yr()
		}
		if s.m8() {
			s.A = s.A&0xFF00 | v&0xFF
			nz8(s, byte(v))
		} else {
			s.A = v
			nz16(s, v)
		}
		s.PC += n
	case iTXY:
		s.Y = s.xr()
		if s.x8() {
			nz8(s, byte(s.Y))
		} else {
			nz16(s, s.Y)
		}
		s.PC += n
	case iTYX:
		s.X = s.yr()
		if s.x8() {
			nz8(s, byte(s.X))
		} else {
			nz16(s, s.X)
		}
		s.PC += n
	case iTSX:
		if s.x8() {
			s.X = s.S & 0xFF
			nz8(s, byte(s.X))
		} else {
			s.X = s.S
			nz16(s, s.X)
		}
		s.PC += n
	case iTXS:
		s.S = s.xr()
		s.PC += n
	case iTCS:
		s.S = s.A
		s.PC += n
	case iTSC:
		s.A = s.S
		nz16(s, s.A)
		s.PC += n
	case iTCD:
		s.D = s.A
		nz16(s, s.D)
		s.PC += n
	case iTDC:
		s.A = s.D
		nz16(s, s.A)
		s.PC += n
	case iXBA:
		s.A = s.A>>8 | s.A<<8
		nz8(s, byte(s.A))
		s.PC += n
	// ---- block move (one byte per step)
	case iMVN, iMVP:
		dst := f8(s, m, 1)
		src := f8(s, m, 2)
		s.DBR = dst
		wr(m, bk(dst, s.yr()), rd(m, bk(src, s.xr())))
		d := uint16(1)
		if e.Ins == iMVP {
			d = 0xFFFF
		}
		if s.x8() {
			s.X = (s.X + d) & 0xFF
			s.Y = (s.Y + d) & 0xFF
		} else {
			s.X += d
			s.Y += d
		}
		s.A--
		if s.A == 0xFFFF {
			s.PC += 3
		}
	// ---- misc
	case iNOP, iWAI, iSTP, iWDM:
		s.PC += n
	}
}

// IsDecimalArith: ADC / SBC, whose result depends on the decimal flag.
func IsDecimalArith(op byte) bool { return Tab[op].Ins == iADC || Tab[op].Ins == iSBC }

// ---- packed BCD arithmetic (decimal mode), digit by digit as in the decimal number system ----

func bcdValid(v uint32, digits int) bool {
	ok := v&0xF <= 9 && v>>4&0xF <= 9
	if digits == 4 {
		ok = ok && v>>8&0xF <= 9 && v>>12&0xF <= 9
	}
	return ok
}

// one decimal digit of a sum: digit and carry
func bcdAddDigit(a, d, c uint32) (uint32, uint32) {
	n := a&0xF + d&0xF + c
	if n > 9 {
		return (n - 10) & 0xF, 1
	}
	return n, 0
}

// one decimal digit of a difference a - d - (1-c): digit and carry (1 = no borrow)
func bcdSubDigit(a, d, c uint32) (uint32, uint32) {
	n := int32(a&0xF) - int32(d&0xF) - int32(1-c)
	if n < 0 {
		return uint32(n+10) & 0xF, 0
	}
	return uint32(n), 1
}

func bcdAdd(a, d, c uint32, digits int) (uint32, uint32) {
	var r, x uint32
	x, c = bcdAddDigit(a, d, c)
	r = x
	x, c = bcdAddDigit(a>>4, d>>4, c)
	r |= x << 4
	if digits == 4 {
		x, c = bcdAddDigit(a>>8, d>>8, c)
		r |= x << 8
		x, c = bcdAddDigit(a>>12, d>>12, c)
		r |= x << 12
	}
	return r, c
}

func bcdSub(a, d, c uint32, digits int) (uint32, uint32) {
	var r, x uint32
	x, c = bcdSubDigit(a, d, c)
	r = x
	x, c = bcdSubDigit(a>>4, d>>4, c)
	r |= x << 4
	if digits == 4 {
		x, c = bcdSubDigit(a>>8, d>>8, c)
		r |= x << 8
		x, c = bcdSubDigit(a>>12, d>>12, c)
		r |= x << 12
	}
	return r, c
}
