package w65c816

// Exported view of the independent opcode table (Tab), used as the ISA oracle for C03 / C07 / C14:
// mnemonic, addressing mode, architectural length and an (mnemonic, mode) -> opcode lookup.

var insNames = [...]string{
	iADC: "adc", iAND: "and", iASL: "asl", iBCC: "bcc", iBCS: "bcs", iBEQ: "beq", iBIT: "bit", iBMI: "bmi", iBNE: "bne", iBPL: "bpl",
	iBRA: "bra", iBRK: "brk", iBRL: "brl", iBVC: "bvc", iBVS: "bvs", iCLC: "clc", iCLD: "cld", iCLI: "cli", iCLV: "clv", iCMP: "cmp",
	iCOP: "cop", iCPX: "cpx", iCPY: "cpy", iDEC: "dec", iDEX: "dex", iDEY: "dey", iEOR: "eor", iINC: "inc", iINX: "inx", iINY: "iny",
	iJML: "jml", iJMP: "jmp", iJSL: "jsl", iJSR: "jsr", iLDA: "lda", iLDX: "ldx", iLDY: "ldy", iLSR: "lsr", iMVN: "mvn", iMVP: "mvp",
	iNOP: "nop", iORA: "ora", iPEA: "pea", iPEI: "pei", iPER: "per", iPHA: "pha", iPHB: "phb", iPHD: "phd", iPHK: "phk", iPHP: "php",
	iPHX: "phx", iPHY: "phy", iPLA: "pla", iPLB: "plb", iPLD: "pld", iPLP: "plp", iPLX: "plx", iPLY: "ply", iREP: "rep", iROL: "rol",
	iROR: "ror", iRTI: "rti", iRTL: "rtl", iRTS: "rts", iSBC: "sbc", iSEC: "sec", iSED: "sed", iSEI: "sei", iSEP: "sep", iSTA: "sta",
	iSTP: "stp", iSTX: "stx", iSTY: "sty", iSTZ: "stz", iTAX: "tax", iTAY: "tay", iTCD: "tcd", iTCS: "tcs", iTDC: "tdc", iTRB: "trb",
	iTSB: "tsb", iTSC: "tsc", iTSX: "tsx", iTXA: "txa", iTXS: "txs", iTXY: "txy", iTYA: "tya", iTYX: "tyx", iWAI: "wai", iWDM: "wdm",
	iXBA: "xba", iXCE: "xce",
}

var modeNames = [...]string{
	mIMP: "imp", mACC: "acc", mIMM8: "imm8", mIMMM: "immM", mIMMX: "immX", mIMM16: "imm16", mABS: "abs", mABSX: "abs,x", mABSY: "abs,y",
	mLONG: "long", mLONGX: "long,x", mDP: "dp", mDPX: "dp,x", mDPY: "dp,y", mIDP: "(dp)", mIDPX: "(dp,x)", mIDPY: "(dp),y",
	mILDP: "[dp]", mILDPY: "[dp],y", mSR: "sr", mISRY: "(sr),y", mREL8: "rel8", mREL16: "rel16", mABSJ: "abs", mIABS: "(abs)",
	mIABSX: "(abs,x)", mILABS: "[abs]", mLONGJ: "long", mBLK: "blk",
}

// Name is the mnemonic of an opcode.
func Name(op byte) string { return insNames[Tab[op].Ins] }

// Mode is the addressing-mode name of an opcode ("abs" and "long" also cover the jump forms).
func Mode(op byte) string { return modeNames[Tab[op].Mode] }

// Opcode finds the opcode for a mnemonic and addressing-mode name; -1 if the ISA has no such encoding,
// -2 if it is not unique.
func Opcode(mn, mode string) int {
	r := -1
	for i := 0; i < 256; i++ {
		if insNames[Tab[i].Ins] == mn && modeNames[Tab[i].Mode] == mode {
			if r >= 0 {
				return -2
			}
			r = i
		}
	}
	return r
}

// Len is the architectural length for accumulator width m16 and index width x16.
func Len(op byte, m16, x16 bool) int {
	var p byte
	if !m16 {
		p |= fM
	}
	if !x16 {
		p |= fX
	}
	return int(Length(op, p))
}

// IsImmM / IsImmX: the operand width follows the m / x flag.
func IsImmM(op byte) bool { return Tab[op].Mode == mIMMM }
func IsImmX(op byte) bool { return Tab[op].Mode == mIMMX }

// Transfers control unconditionally or restores flags from the stack (excluded from C07's straight-line programs).
func IsControl(op byte) bool {
	switch Tab[op].Ins {
	case iBRA, iBRL, iJMP, iJML, iJSR, iJSL, iRTS, iRTL, iRTI, iBRK, iCOP, iPLP, iSTP, iWAI, iXCE:
		return true
	}
	return false
}

// IsBranch: conditional relative branch.
func IsBranch(op byte) bool {
	switch Tab[op].Ins {
	case iBCC, iBCS, iBEQ, iBMI, iBNE, iBPL, iBVC, iBVS:
		return true
	}
	return false
}

// HexVal is the value of a lower-case hexadecimal digit character, 255 for any other character.
func HexVal(c byte) uint32 {
	if c >= '0' && c <= '9' {
		return uint32(c - '0')
	}
	if c >= 'a' && c <= 'f' {
		return uint32(c-'a') + 10
	}
	return 255
}

// TraceName is the mnemonic a trace line shows: the ISA mnemonic, with the long jumps $5C / $DC shown under
// their common alias "jmp".
func TraceName(op byte) string {
	if Tab[op].Ins == iJML {
		return "jmp"
	}
	return Name(op)
}

// TraceTail is the number of characters of a cpu65c816 trace line after the decimal cycle count. It is layout
// knowledge of that format, not truth: 70, except for the stack-relative operand form "$xx, Sn", which the
// disassembler pads to 11 instead of 13 columns.
func TraceTail(op byte) int {
	if Tab[op].Mode == mSR {
		return 68
	}
	return 70
}

// ---- operand field of a cpu65c816 trace line ----
// The operand of an instruction is shown in the assembler notation of its addressing mode: the operand bytes as
// hex digits, most significant first, inside the brackets / with the index suffix of the mode; immediates by the
// width in force; relative branches as the operand and the 16-bit target; PER / BRL as the target. The
// punctuation style (", X", "Sn") is layout knowledge of this tracer. Template digits stand for hex digits:
// 1 2 = operand byte 1 (high, low nibble), 3 4 = byte 2, 5 6 = byte 3, 7 8 9 0 = the four digits of the target.

// TraceOperandWidth is the width of the operand field (see TraceTail).
func TraceOperandWidth(op byte) int {
	if Tab[op].Mode == mSR {
		return 11
	}
	return 13
}

func fillOperand(t string, k int, w1, w2, w3 byte, tgt uint16) byte {
	const hex = "0123456789abcdef"
	if k >= len(t) {
		return ' '
	}
	switch t[k] {
	case '1':
		return hex[w1>>4]
	case '2':
		return hex[w1&15]
	case '3':
		return hex[w2>>4]
	case '4':
		return hex[w2&15]
	case '5':
		return hex[w3>>4]
	case '6':
		return hex[w3&15]
	case '7':
		return hex[tgt>>12]
	case '8':
		return hex[tgt>>8&15]
	case '9':
		return hex[tgt>>4&15]
	case '0':
		return hex[tgt&15]
	}
	return t[k]
}

// TraceOperandChar is column k (0-based) of the operand field for opcode op with operand bytes w1 w2 w3 (the bytes
// following the opcode), wide = a width-dependent immediate is 16 bits now, pc = address of the opcode.
func TraceOperandChar(op byte, wide bool, k int, w1, w2, w3 byte, pc uint16) byte {
	if Tab[op].Ins == iBRK {
		// WDC lists BRK among the stack / interrupt instructions and writes it without an operand; the
		// signature byte appears in the byte column only
		return ' '
	}
	switch Tab[op].Mode {
	case mIMP:
		return ' '
	case mACC:
		return fillOperand("A", k, w1, w2, w3, 0)
	case mIMM8:
		return fillOperand("#$12", k, w1, w2, w3, 0)
	case mIMMM, mIMMX:
		if wide {
			return fillOperand("#$3412", k, w1, w2, w3, 0)
		}
		return fillOperand("#$12", k, w1, w2, w3, 0)
	case mIMM16:
		return fillOperand("#$3412", k, w1, w2, w3, 0)
	case mABS, mABSJ:
		return fillOperand("$3412", k, w1, w2, w3, 0)
	case mABSX:
		return fillOperand("$3412, X", k, w1, w2, w3, 0)
	case mABSY:
		return fillOperand("$3412, Y", k, w1, w2, w3, 0)
	case mLONG, mLONGJ:
		return fillOperand("$563412", k, w1, w2, w3, 0)
	case mLONGX:
		return fillOperand("$563412, X", k, w1, w2, w3, 0)
	case mDP:
		return fillOperand("$12", k, w1, w2, w3, 0)
	case mDPX:
		return fillOperand("$12, X", k, w1, w2, w3, 0)
	case mDPY:
		return fillOperand("$12, Y", k, w1, w2, w3, 0)
	case mIDP:
		return fillOperand("($12)", k, w1, w2, w3, 0)
	case mIDPX:
		return fillOperand("($12, X)", k, w1, w2, w3, 0)
	case mIDPY:
		return fillOperand("($12), Y", k, w1, w2, w3, 0)
	case mILDP:
		return fillOperand("[$12]", k, w1, w2, w3, 0)
	case mILDPY:
		return fillOperand("[$12], Y", k, w1, w2, w3, 0)
	case mSR:
		return fillOperand("$12, Sn", k, w1, w2, w3, 0)
	case mISRY:
		return fillOperand("($12, Sn), Y", k, w1, w2, w3, 0)
	case mREL8:
		tgt := pc + 2 + uint16(int16(int8(w1)))
		if w1 >= 0x80 {
			return fillOperand("$12 ($7890 -)", k, w1, w2, w3, tgt)
		}
		return fillOperand("$12 ($7890 +)", k, w1, w2, w3, tgt)
	case mREL16:
		return fillOperand("$7890", k, w1, w2, w3, pc+3+(uint16(w2)<<8|uint16(w1)))
	case mIABS:
		return fillOperand("($3412)", k, w1, w2, w3, 0)
	case mIABSX:
		return fillOperand("($3412, X)", k, w1, w2, w3, 0)
	case mILABS:
		return fillOperand("[$3412]", k, w1, w2, w3, 0)
	case mBLK:
		return fillOperand("#$34,#$12", k, w1, w2, w3, 0)
	}
	return '?'
}
