package w65c816

// Exported view of the independent opcode table (Tab), used as the ISA oracle for C03 / C07 / C14:
// mnemonic, addressing mode, architectural length and an (mnemonic, mode) -> opcode lookup.

var insNames = [...]string{
	iADC: "adc", iAND: "and", iASL: "asl", iBCC: "bcc", iBCS: "bcs", iBEQ: "beq", iBIT: "bit", iBMI: "bmi", iBNE: "bne", iBPL: "bpl",
	iBRA: "bra", iBRK: "brk", iBRL: "brl", iBVC: "bvc", iBVS: "bvs", iCLC: "clc", iCLD: "cld", iCLI: "cli", iCLV: "clv", iCMP: "cmp",
	iCOP: "cop", iCPX: "cpx", iCPY: "cpy", iDEC: "dec", iDEX: "dex", iDEY: "dey", iEOR: "eor", iINC: "inc", iINX: "inx", iINY: "iny",
	iJML: "jml", iJMP: "jmp", iJSL: "jsl", iJSR: "jsr", iLDA: "lda", iLDX: "ldx", iLDY: "ldy", iLSR: "lsr", iMVN: "mvn", iMVP: "mvp",
	iNOP: "nop", iORA: "ora", iPEA: "pea", iPEI: "pei", iPER: "per", iPHA: "pha", iPHB: "phb", iPHD: "phd", iPHK: "phk", iPHP: "php",
	iPHX: "phx", iPHY: "phy", iPLA: "pla", iPLB: "plb", iPLD: "pld", iPLP: "plp", iPLX: "plx", iPLY: "ply", iREP: "rep", iROL: "rol",
	iROR: "ror", iRTI: "rti", iRTL: "rtl", iRTS: "rts", iSBC: "sbc", iSEC: "sec", iSED: "sed", iSEI: "sei", iSEP: "sep", iSTA: "sta",
	iSTP: "stp", iSTX: "stx", iSTY: "sty", iSTZ: "stz", iTAX: "tax", iTAY: "tay", iTCD: "tcd", iTCS: "tcs", iTDC: "tdc", iTRB: "trb",
	iTSB: "tsb", iTSC: "tsc", iTSX: "tsx", iTXA: "txa", iTXS: "txs", iTXY: "txy", iTYA: "tya", iTYX: "tyx", iWAI: "wai", iWDM: "wdm",
	iXBA: "xba", iXCE: "xce",
}

var modeNames = [...]string{
	mIMP: "imp", mACC: "acc", mIMM8: "imm8", mIMMM: "immM", mIMMX: "immX", mIMM16: "imm16", mABS: "abs", mABSX: "abs,x", mABSY: "abs,y",
	mLONG: "long", mLONGX: "long,x", mDP: "dp", mDPX: "dp,x", mDPY: "dp,y", mIDP: "(dp)", mIDPX: "(dp,x)", mIDPY: "(dp),y",
	mILDP: "[dp]", mILDPY: "[dp],y", mSR: "sr", mISRY: "(sr),y", mREL8: "rel8", mREL16: "rel16", mABSJ: "abs", mIABS: "(abs)",
	mIABSX: "(abs,x)", mILABS: "[abs]", mLONGJ: "long", mBLK: "blk",
}

// Name is the mnemonic of an opcode.
func Name(op byte) string { return insNames[Tab[op].Ins] }

// Mode is the addressing-mode name of an opcode ("abs" and "long" also cover the jump forms).
func Mode(op byte) string { return modeNames[Tab[op].Mode] }

// Opcode finds the opcode for a mnemonic and addressing-mode name; -1 if the ISA has no such encoding,
// -2 if it is not unique.
func Opcode(mn, mode string) int {
	r := -1
	for i := 0; i < 256; i++ {
		if insNames[Tab[i].Ins] == mn && modeNames[Tab[i].Mode] == mode {
			if r >= 0 {
				return -2
			}
			r = i
		}
	}
	return r
}

// Len is the architectural length for accumulator width m16 and index width x16.
func Len(op byte, m16, x16 bool) int {
	var p byte
	if !m16 {
		p |= fM
	}
	if !x16 {
		p |= fX
	}
	return int(Length(op, p))
}

// IsImmM / IsImmX: the operand width follows the m / x flag.
func IsImmM(op byte) bool { return Tab[op].Mode == mIMMM }
func IsImmX(op byte) bool { return Tab[op].Mode == mIMMX }

// Transfers control unconditionally or restores flags from the stack (excluded from C07's straight-line programs).
func IsControl(op byte) bool {
	switch Tab[op].Ins {
	case iBRA, iBRL, iJMP, iJML, iJSR, iJSL, iRTS, iRTL, iRTI, iBRK, iCOP, iPLP, iSTP, iWAI, iXCE:
		return true
	}
	return false
}

// IsBranch: conditional relative branch.
func IsBranch(op byte) bool {
	switch Tab[op].Ins {
	case iBCC, iBCS, iBEQ, iBMI, iBNE, iBPL, iBVC, iBVS:
		return true
	}
	return false
}

// HexVal is the value of a lower-case hexadecimal digit character, 255 for any other character.
func HexVal(c byte) uint32 {
	if c >= '0' && c <= '9' {
		return uint32(c - '0')
	}
	if c >= 'a' && c <= 'f' {
		return uint32(c-'a') + 10
	}
	return 255
}

// TraceName is the mnemonic a trace line shows: the ISA mnemonic, with the long jumps $5C / $DC shown under
// their common alias "jmp".
func TraceName(op byte) string {
	if Tab[op].Ins == iJML {
		return "jmp"
	}
	return Name(op)
}

// TraceTail is the number of characters of a cpu65c816 trace line after the decimal cycle count. It is layout
// knowledge of that format, not truth: 70, except for the stack-relative operand form "$xx, Sn", which the
// disassembler pads to 11 instead of 13 columns.
func TraceTail(op byte) int {
	if Tab[op].Mode == mSR {
		return 68
	}
	return 70
}
