// Package mapspec is the independent oracle for C04/C05/C11: the documented memory maps of the four
// cartridge mappers as region tables (DESIGN.md Appendix C), written from the public SNES / FX Pak Pro
// memory-map documentation — not derived from the mapper code. Pure, total, loop-free Go.
package mapspec

// Memory classes of an FX Pak Pro address.
const (
	None = 0
	ROM  = 1
	SRAM = 2
	WRAM = 3
)

// Class of a Pak address by window: ROM 000000–DFFFFF, SRAM E00000–EFFFFF, unassigned F00000–F4FFFF,
// WRAM F50000–F6FFFF; F70000–FFFFFF mirror WRAM (class WRAM).
func Class(p uint32) int {
	p &= 0xFFFFFF
	if p < 0xE00000 {
		return ROM
	}
	if p < 0xF00000 {
		return SRAM
	}
	if p < 0xF50000 {
		return None
	}
	return WRAM
}

// InWindow: p lies in the canonical window of exactly one class (what BusAddressToPak may return).
func InWindow(p uint32) bool {
	return p < 0xF00000 || (p >= 0xF50000 && p <= 0xF6FFFF)
}

func lin(b, o uint32) uint32 { return (b << 15) | (o & 0x7FFF) }

func sysBank(b uint32) bool { return b <= 0x3F || (b >= 0x80 && b <= 0xBF) }

// console returns the console-owned part of the map, shared by all mappers:
// 7E–7F → WRAM; 00–3F,80–BF:0000–1FFF → first 8 KiB of WRAM; 00–3F,80–BF:2000–5FFF never mapped.
// decided reports whether the console part decides the address.
func console(b, o uint32) (pak uint32, ok bool, decided bool) {
	if b == 0x7E || b == 0x7F {
		return 0xF50000 + (((b - 0x7E) << 16) | o), true, true
	}
	if sysBank(b) {
		if o < 0x2000 {
			return 0xF50000 + o, true, true
		}
		if o < 0x6000 {
			return 0, false, true
		}
	}
	return 0, false, false
}

// LoROM region table.
func LoROM(a uint32) (pak uint32, ok bool) {
	b, o := (a>>16)&0xFF, a&0xFFFF
	if p, k, d := console(b, o); d {
		return p, k
	}
	if o >= 0x8000 {
		// 00–7D, 80–FF : 8000–FFFF → ROM
		return lin(b&0x3F, o), true
	}
	if b >= 0x70 && b <= 0x7D {
		return 0xE00000 + lin(b-0x70, o), true
	}
	if b >= 0xF0 {
		return 0xE00000 + lin(b-0xF0, o), true
	}
	if ((b >= 0x40 && b <= 0x6F) || (b >= 0xC0 && b <= 0xEF)) && o < 0x2000 {
		return 0xF50000 + o, true
	}
	return 0, false
}

// HiROM region table.
func HiROM(a uint32) (pak uint32, ok bool) {
	b, o := (a>>16)&0xFF, a&0xFFFF
	if p, k, d := console(b, o); d {
		return p, k
	}
	if (b >= 0x40 && b <= 0x7D) || b >= 0xC0 {
		return ((b & 0x3F) << 16) | o, true
	}
	// system banks 00–3F, 80–BF, offsets 6000–FFFF
	if o >= 0x8000 {
		return lin(b&0x3F, o), true
	}
	if (b >= 0x20 && b <= 0x3F) || (b >= 0xA0 && b <= 0xBF) {
		return 0xE00000 + (((b & 0x1F) << 13) | (o & 0x1FFF)), true
	}
	return 0, false
}

// ExHiROM region table.
func ExHiROM(a uint32) (pak uint32, ok bool) {
	b, o := (a>>16)&0xFF, a&0xFFFF
	if p, k, d := console(b, o); d {
		return p, k
	}
	if b >= 0xC0 {
		return ((b & 0x3F) << 16) | o, true
	}
	if b >= 0x40 && b <= 0x7D {
		return 0x400000 + (((b & 0x3F) << 16) | o), true
	}
	if o >= 0x8000 {
		if b >= 0x80 {
			return lin(b&0x3F, o), true
		}
		return 0x400000 + lin(b, o), true
	}
	if b >= 0xA0 && b <= 0xBF {
		return 0xE00000 + (((b & 0x1F) << 13) | (o & 0x1FFF)), true
	}
	return 0, false
}

// SA1 region table.
func SA1(a uint32) (pak uint32, ok bool) {
	b, o := (a>>16)&0xFF, a&0xFFFF
	if p, k, d := console(b, o); d {
		return p, k
	}
	if b >= 0xC0 {
		return ((b - 0xC0) << 16) | o, true
	}
	if sysBank(b) {
		if o >= 0x8000 {
			if b >= 0x80 {
				return lin(b-0x80+0x40, o), true
			}
			return lin(b, o), true
		}
		// 6000–7FFF: BW-RAM image
		return 0xE00000 + (o - 0x6000), true
	}
	if b >= 0x40 && b <= 0x43 {
		return 0xE00000 + (((b - 0x40) << 16) | o), true
	}
	if b >= 0x44 && b <= 0x4F {
		return 0xE00000 + (o & 0x1FFF), true
	}
	return 0, false
}

// PakRejected: the only Pak window PakAddressToBus may refuse.
func PakRejected(p uint32) bool { return p >= 0xF00000 && p <= 0xF4FFFF }

// ConsoleOwned: addresses whose translation is fixed by the console, with their result.
func ConsoleOwned(a uint32) (pak uint32, ok bool, decided bool) {
	return console((a>>16)&0xFF, a&0xFFFF)
}

// Single-result projections (contract expressions use one value at a time).
func LoROMPak(a uint32) uint32     { p, _ := LoROM(a); return p }
func LoROMOk(a uint32) bool        { _, k := LoROM(a); return k }
func HiROMPak(a uint32) uint32     { p, _ := HiROM(a); return p }
func HiROMOk(a uint32) bool        { _, k := HiROM(a); return k }
func ExHiROMPak(a uint32) uint32   { p, _ := ExHiROM(a); return p }
func ExHiROMOk(a uint32) bool      { _, k := ExHiROM(a); return k }
func SA1Pak(a uint32) uint32       { p, _ := SA1(a); return p }
func SA1Ok(a uint32) bool          { _, k := SA1(a); return k }
func ConsoleDecided(a uint32) bool { _, _, d := ConsoleOwned(a); return d }
func ConsoleOk(a uint32) bool      { _, k, _ := ConsoleOwned(a); return k }
func ConsolePak(a uint32) uint32   { p, _, _ := ConsoleOwned(a); return p }
