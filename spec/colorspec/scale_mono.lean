/-
C17, corollary "a larger ratio never darkens a channel".

The contract of color15.Color.MulDiv (checked by snesvc against the real code) says that every channel of the result is
colorspec.Scale(ch, m, d) = min(31, ch*m/d), computed in uint32 where ch ≤ 31 and m, d ≤ 255, so that no
intermediate value exceeds 7905 and machine arithmetic coincides with arithmetic on ℕ. The statement below is that
spec function, transcribed to ℕ; the theorem is the corollary: if m1/d1 ≤ m2/d2 as rationals (m1*d2 ≤ m2*d1) then
Scale ch m1 d1 ≤ Scale ch m2 d2 for every channel value.
-/
import Mathlib.Tactic

def Scale (ch m d : ℕ) : ℕ := min (ch * m / d) 31

theorem muldiv_mono (c m1 d1 m2 d2 : ℕ) (h1 : 0 < d1) (h2 : 0 < d2)
    (h : m1 * d2 ≤ m2 * d1) : c * m1 / d1 ≤ c * m2 / d2 := by
  rw [Nat.le_div_iff_mul_le h2]
  have a : c * m1 / d1 * d1 ≤ c * m1 := Nat.div_mul_le_self _ _
  have b : c * m1 / d1 * d2 * d1 ≤ c * m2 * d1 := by
    calc c * m1 / d1 * d2 * d1 = c * m1 / d1 * d1 * d2 := by ring
      _ ≤ c * m1 * d2 := Nat.mul_le_mul_right _ a
      _ = c * (m1 * d2) := by ring
      _ ≤ c * (m2 * d1) := Nat.mul_le_mul_left _ h
      _ = c * m2 * d1 := by ring
  exact Nat.le_of_mul_le_mul_right b h1

theorem scale_mono (ch m1 d1 m2 d2 : ℕ) (h1 : 0 < d1) (h2 : 0 < d2)
    (h : m1 * d2 ≤ m2 * d1) : Scale ch m1 d1 ≤ Scale ch m2 d2 :=
  min_le_min (muldiv_mono ch m1 d1 m2 d2 h1 h2 h) le_rfl

/-- equal multiplicand and divisor is the identity on a 5-bit channel -/
theorem scale_id (ch m : ℕ) (hm : 0 < m) (hc : ch ≤ 31) : Scale ch m m = ch := by
  unfold Scale
  rw [Nat.mul_div_cancel _ hm]
  exact min_eq_left hc

#print axioms scale_mono
#print axioms scale_id
