// Package colorspec is the oracle for C17, written from the property text.
package colorspec

func min31(v uint32) uint32 {
	if v > 31 {
		return 31
	}
	return v
}

// Scale is floor(ch*m/d) limited to 31, computed without overflow (ch <= 31, m <= 255).
func Scale(ch uint32, m, d uint8) uint32 { return min31(ch * uint32(m) / uint32(d)) }

// MulDiv scales the three 5-bit channels of a 15-bit colour independently.
func MulDiv(c uint16, m, d uint8) uint16 {
	r := uint32(c) & 31
	g := (uint32(c) >> 5) & 31
	b := (uint32(c) >> 10) & 31
	return uint16(Scale(b, m, d)<<10 | Scale(g, m, d)<<5 | Scale(r, m, d))
}

// Mean is the integer mean of the three channels.
func Mean(c uint16) uint8 {
	r := uint32(c) & 31
	g := (uint32(c) >> 5) & 31
	b := (uint32(c) >> 10) & 31
	return uint8((r + g + b) / 3)
}
